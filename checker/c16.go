package main

import (
	"fmt"
	"go/token"
	"go/types"
	"strings"

	"golang.org/x/tools/go/ssa"
)

const attestPkg = "attestation/yubiattest"

func init() {
	register(&property{
		ID: "C16",
		Meta: propMeta{
			Level:       "Structural necessary conditions of 'decodes faithfully / extraction is total': (R1) every index, slice, assertion and explicit panic on the call trees of the lenient certificate parser, the PEM bundle parser and the device-serial extractor is discharged by interval must-facts or a reviewed justification; (R2) the parser's algorithm/OID tables equal crypto/x509's own source tables; (R3) trailing data is refused and the RSA arm ignores the algorithm parameters while keeping the modulus/exponent sign checks; (R4) the ModHex alphabet has 16 distinct characters, indices are masked to 4 bits, the extension OID is the Yubico serial OID, and the length switch admits exactly the 3-byte (offset 2) and 4-byte (offset 0) forms with 2*len+offset == 8; (R5) the PEM loop returns the list only when the rest is white space. Field-by-field agreement with crypto/x509 on real certificates is not decided (it needs running both).",
			Technique:   "static analysis: panic-obligation discharge + constant-table comparison against standard-library source + decision-table extraction on go/ssa",
			Explanation: "Obligations are enumerated over the repository functions reachable from ParseCertificate, ParsePEMCertificate(s) and ModHex; tables are evaluated from the type-checked syntax of the repository and of crypto/x509 (loaded from source).",
			Assumptions: []string{"encoding/asn1, cryptobyte, crypto/ecdh do not panic on arbitrary input and Bytes() has the documented fixed length"},
			Trusted:     []string{"go/packages", "go/types", "go/ssa", "crypto/x509 source as oracle"},
			RuleDoc: map[string]string{
				"R9.state":    "no memory of earlier calls: on the call tree only frozen package-level variables are touched (known exceptions listed with reasons), and no package-level object is handed out",
				"R1.bounds":   "index/slice/assertion obligations of the parsers and of ModHex",
				"R1.nil":      "nil-dereference obligations (use before error check)",
				"R3.trailing": "trailing data refused; RSA arm lenient on parameters but strict on modulus/exponent",
				"R4.modhex":   "ModHex arms {3:offset 2, 4:offset 0}, nibble mapping, failure cases",
				"R5.pem":      "PEM bundle loop: rest handling, white-space end, ordered append",
				"R6.fields":   "field-source table of the parsed certificate (raw bytes, signature, algorithm, serial, validity, version, names)",
				"R2.tables":   "OID / algorithm tables equal to crypto/x509's source tables",
				"R4.alphabet": "ModHex alphabet, 4-bit masking, serial extension OID",
			},
		},
		Run: runC16,
	})
}

func c16Entries(w *World) []*ssa.Function {
	var out []*ssa.Function
	for _, f := range []*ssa.Function{w.Func(attestPkg, "ParseCertificate"), w.Func(attestPkg, "ModHex"), w.Func("agent/utils", "ParsePEMCertificates"), w.Func("agent/utils", "ParsePEMCertificate")} {
		if f != nil {
			out = append(out, f)
		}
	}
	return out
}

func runC16(c *Ctx) {
	stateRule(c, "R9.state", []*ssa.Function{c.w.Func(attestPkg, "ParseCertificate"), c.w.Func(attestPkg, "ModHex"), c.w.Func("agent/utils", "ParsePEMCertificates")}, knownState)
	w := c.w
	for _, n := range []string{"ParseCertificate", "ModHex"} {
		if w.Func(attestPkg, n) == nil {
			c.Unresolved("R1.bounds", "yubiattest."+n)
		}
	}
	runPanicRules(c, "R1", c16Entries(w), 30)
	tablesC16(c)
	c16Structure(c)
}

// c16Structure: R3 (trailing data / RSA leniency), R4 (ModHex arms and byte mapping), R5 (PEM loop).
func c16Structure(c *Ctx) {
	w := c.w
	c16FieldSources(c)
	c16FreshTargets(c)
	// ---- R3 ----
	if pc := w.Func(attestPkg, "ParseCertificate"); pc != nil {
		f := w.Facts(pc)
		var um *ssa.Call
		for _, call := range callsTo(pc, "encoding/asn1.Unmarshal") {
			um, _ = call.(*ssa.Call)
		}
		n := 0
		for _, call := range callsIn(pc) {
			cv, ok := call.(*ssa.Call)
			if !ok {
				continue
			}
			callee := cv.Call.StaticCallee()
			if callee == nil || !w.InRepo(callee) {
				continue
			}
			n++
			okErr, okRest := false, false
			if um != nil {
				isNil, known := f.KnownNil(cv.Block(), extractOf(um, 1))
				okErr = known && isNil
				okRest = f.Any(cv.Block(), func(l Lit) bool {
					bin, ok := l.V.(*ssa.BinOp)
					if !ok {
						return false
					}
					la := lenArg(bin.X)
					k, isK := intConst(bin.Y)
					if la == nil || !isK || k != 0 || la != extractOf(um, 0) {
						return false
					}
					return (bin.Op == token.GTR && !l.Pol) || (bin.Op == token.NEQ && !l.Pol) || (bin.Op == token.EQL && l.Pol)
				})
			}
			c.Check(okErr && okRest, "R3.trailing", "ParseCertificate|decoded only when the DER was consumed entirely", w.Pos(cv.Pos()), "must-facts asn1 err == nil and len(rest) == 0", "a certificate followed by trailing data is accepted (or an ASN.1 error ignored)")
		}
		c.Floor("R3.trailing", n, 1, "call of the certificate builder in ParseCertificate")
	}
	if pk := funcBySignature(w, attestPkg, "crypto/x509.PublicKeyAlgorithm", "publicKeyInfo"); pk != nil {
		c.Saw(pk)
		f := w.Facts(pk)
		rsaArm := func(b *ssa.BasicBlock) bool {
			return f.Any(b, func(l Lit) bool {
				bin, ok := l.V.(*ssa.BinOp)
				if !ok || bin.Op != token.EQL || !l.Pol || w.Expr(bin.X) != "p0" {
					return false
				}
				k, isK := intConst(bin.Y)
				return isK && k == 1 // x509.RSA
			})
		}
		leak := false
		for _, b := range pk.Blocks {
			if !rsaArm(b) {
				continue
			}
			for _, ins := range b.Instrs {
				if fa, ok := ins.(*ssa.FieldAddr); ok && fieldName(fa.X.Type(), fa.Field) == "Parameters" {
					leak = true
					c.Bad("R3.trailing", "parsePublicKey|RSA arm ignores the algorithm parameters", w.Pos(fa.Pos()), "the RSA arm reads the AlgorithmIdentifier parameters: keys whose identifier omits the NULL would be rejected (the leniency this parser exists for)")
				}
			}
		}
		if !leak {
			c.Ok("R3.trailing", "parsePublicKey|RSA arm ignores the algorithm parameters", w.FnPos(pk), "no access to Algorithm.Parameters under algo == RSA")
		}
		// the RSA key is returned only under the sign checks
		n := 0
		var rsaReturns []*ssa.Return
		for _, g := range w.Tree(pk) {
			for _, b := range g.Blocks {
				if r, ok := b.Instrs[len(b.Instrs)-1].(*ssa.Return); ok && len(r.Results) > 0 {
					rsaReturns = append(rsaReturns, r)
				}
			}
		}
		for _, r := range rsaReturns {
			al, ok := strip(r.Results[0]).(*ssa.Alloc)
			if !ok || !strings.HasSuffix(al.Type().String(), "crypto/rsa.PublicKey") {
				continue
			}
			n++
			b := r.Block()
			okN := f.Any(b, func(l Lit) bool {
				bin, ok := l.V.(*ssa.BinOp)
				if !ok || l.Pol || bin.Op != token.LEQ {
					return false
				}
				k, isK := intConst(bin.Y)
				return isK && k == 0 && strings.Contains(w.Expr(bin.X), "math/big.Int).Sign>(") && strings.HasSuffix(w.Expr(bin.X), ".N)")
			})
			okE := f.Any(b, func(l Lit) bool {
				bin, ok := l.V.(*ssa.BinOp)
				if !ok || l.Pol || bin.Op != token.LEQ {
					return false
				}
				k, isK := intConst(bin.Y)
				return isK && k == 0 && strings.HasSuffix(w.Expr(bin.X), ".E")
			})
			okRest := f.Any(b, func(l Lit) bool {
				bin, ok := l.V.(*ssa.BinOp)
				if !ok {
					return false
				}
				k, isK := intConst(bin.Y)
				return lenArg(bin.X) != nil && isK && k == 0 && ((bin.Op == token.NEQ && !l.Pol) || (bin.Op == token.EQL && l.Pol) || (bin.Op == token.GTR && !l.Pol))
			})
			c.Check(okN && okE && okRest, "R3.trailing", "parsePublicKey|RSA key only with positive modulus/exponent and no trailing data", w.Pos(r.Pos()), "must-facts N.Sign() > 0, E > 0, len(rest) == 0", "an RSA key with a non-positive modulus/exponent or trailing data can be returned")
			fs := w.FieldStoresDeep(pk, al)
			okFields := len(fs["N"]) == 1 && strings.HasSuffix(w.Expr(fs["N"][0]), ".N") && len(fs["E"]) == 1 && strings.HasSuffix(w.Expr(fs["E"][0]), ".E")
			c.Check(okFields, "R3.trailing", "parsePublicKey|RSA key fields from the decoded structure", w.Pos(r.Pos()), "N: p.N, E: p.E", "modulus/exponent are swapped or replaced")
		}
		c.Floor("R3.trailing", n, 1, "RSA key return")
	}

	// ---- R4: ModHex ----
	if top := w.Func(attestPkg, "ModHex"); top != nil {
		c.Saw(top)
		// the encoding may sit in a helper whose result ModHex returns: the rules about the loop are read there, the
		// serial is what ModHex hands to it
		mh := top
		var encSite *ssa.Call
		hasAlphabet := func(g *ssa.Function) bool {
			for _, b := range g.Blocks {
				for _, ins := range b.Instrs {
					if ix, ok := ins.(*ssa.Index); ok {
						if sc, isS := strConst(ix.X); isS && len(sc) == 16 {
							return true
						}
					}
				}
			}
			return false
		}
		if !hasAlphabet(top) {
			for _, call := range callsIn(top) {
				cv, ok := call.(*ssa.Call)
				if !ok {
					continue
				}
				if g := w.helperOf(cv); g != nil && w.transparent(g) && hasAlphabet(g) && len(w.callSites(g)) == 1 {
					// its results are ModHex's
					handed := true
					for _, r := range liveReturns(top) {
						if !ReachableAvoiding(cv, nil)(r) {
							continue
						}
						for k, res := range r.Results {
							want := ssa.Value(cv)
							if g.Signature.Results().Len() > 1 {
								want = extractOf(cv, k)
							}
							if throughCell(strip(res)) != want {
								handed = false
							}
						}
					}
					if handed {
						mh, encSite = g, cv
					}
				}
			}
		}
		c.Saw(mh)
		f := w.Facts(mh)
		// dst: make([]byte, N)
		var dst ssa.Value
		dstLen := int64(-1)
		for _, b := range mh.Blocks {
			for _, ins := range b.Instrs {
				switch x := ins.(type) {
				case *ssa.MakeSlice:
					if k, ok := intConst(x.Len); ok {
						dst, dstLen = x, k
					}
				case *ssa.Slice:
					if a, ok := x.X.(*ssa.Alloc); ok && a.Heap && arrayLen(a.Type()) > 0 {
						if bt, ok := a.Type().(*types.Pointer).Elem().(*types.Array); ok && bt.Elem().String() == "byte" || true {
							if arrayLen(a.Type()) == 8 || dst == nil {
								dst, dstLen = x, arrayLen(a.Type())
							}
						}
					}
				}
			}
		}
		c.Check(dstLen == 8, "R4.modhex", "ModHex|8-character result", w.FnPos(mh), "make([]byte, 8)", "the result buffer is not 8 bytes")
		// stores into dst: index and value
		type wr struct {
			idx ssa.Value
			val ssa.Value
			st  *ssa.Store
		}
		var loopWrites []wr
		var serial ssa.Value
		for _, b := range mh.Blocks {
			for _, ins := range b.Instrs {
				st, ok := ins.(*ssa.Store)
				if !ok {
					continue
				}
				ia, ok := st.Addr.(*ssa.IndexAddr)
				if !ok {
					continue
				}
				if sl, isSl := dst.(*ssa.Slice); ia.X != dst && !(isSl && sl.Low == nil && sl.High == nil && ia.X == sl.X) {
					continue // (a whole-array slice and the array indexed in place are the same bytes)
				}
				if _, isK := intConst(ia.Index); isK {
					continue // the constant prefix writes of the 3-byte arm
				}
				loopWrites = append(loopWrites, wr{ia.Index, st.Val, st})
			}
		}
		okHi, okLo := false, false
		var idxPhi *ssa.Phi
		for _, x := range loopWrites {
			ix, isIdx := x.val.(*ssa.Index)
			if !isIdx {
				continue
			}
			kind, byteVal := nibbleOf(ix.Index)
			if kind == "" {
				continue
			}
			// base index: phi or phi+1
			if p, ok := x.idx.(*ssa.Phi); ok {
				if kind == "hi" {
					okHi = true
					idxPhi = p
					if ld, ok := strip(byteVal).(*ssa.UnOp); ok {
						if ia, ok := ld.X.(*ssa.IndexAddr); ok && isForwardRangeIndex(ia.Index) {
							serial = ia.X
						}
					}
				}
			} else if b, ok := x.idx.(*ssa.BinOp); ok && b.Op == token.ADD {
				if one, ok := intConst(b.Y); ok && one == 1 {
					if _, isPhi := b.X.(*ssa.Phi); isPhi && kind == "lo" {
						if _, isLd := strip(byteVal).(*ssa.UnOp); isLd {
							okLo = true
						}
					}
				}
			}
		}
		// the other way of writing the result: dst = append(dst, hi, lo) once per serial byte, starting from an empty
		// buffer that the 3-byte arm extends by the padding
		var app *mhAppend
		if len(loopWrites) == 0 {
			if app = modhexAppendForm(w, mh); app != nil {
				okHi, okLo, serial = app.okHi, app.okLo, app.serial
			}
		}
		// a third way of writing the result: dst[pad+2*i] and dst[pad+2*i+1] with pad = 8 - 2*len(serial) computed once
		var of *mhOffset
		if !(okHi && okLo) && app == nil && len(loopWrites) > 0 {
			var ws []mhWrite
			for _, x := range loopWrites {
				ws = append(ws, mhWrite{x.idx, x.val, x.st})
			}
			if of = modhexOffsetForm(w, mh, dst, dstLen, ws); of != nil {
				okHi, okLo, serial = true, true, of.serial
			}
		}
		c.Check(okHi && okLo, "R4.modhex", "ModHex|each byte becomes high nibble then low nibble", w.FnPos(mh), "dst[i] = alphabet[(b>>4)&0xf]; dst[i+1] = alphabet[b&0xf]", "the two characters of a byte are not its high and low nibble in that order")
		if (idxPhi == nil && app == nil && of == nil) || serial == nil {
			c.Und("R4.modhex", "ModHex|write index and serial", w.FnPos(mh), "the loop writing the result was not recognised")
		} else {
			// step 2
			step := false
			var start ssa.Value
			if of != nil {
				step = true // the write index is pad + 2*i (+1): read off its linear form
			} else if app != nil {
				step, start = true, app.start // two characters appended per iteration, by construction
				c.Check(app.returned, "R4.modhex", "ModHex|the appended buffer is the result", w.FnPos(mh), "return string(dst)", "the buffer the characters are appended to is not what ModHex returns")
			} else {
				for _, e := range idxPhi.Edges {
					if b, ok := e.(*ssa.BinOp); ok && b.Op == token.ADD && b.X == ssa.Value(idxPhi) {
						if k, ok := intConst(b.Y); ok && k == 2 {
							step = true
						}
					} else {
						start = e
					}
				}
			}
			c.Check(step, "R4.modhex", "ModHex|index advances by two per byte", w.FnPos(mh), "dstidx += 2", "the write index does not advance by two per serial byte")
			// arms: start is a phi over the admitted lengths
			arms := map[int64]int64{}
			okArms := true
			if sp, ok := start.(*ssa.Phi); ok {
				for i, e := range sp.Edges {
					off := lin(w, e, func(ssa.Value) string { return "" })
					if app != nil {
						k, ok := app.padOf(e)
						if !ok {
							okArms = false
							continue
						}
						off = linForm{c: k, terms: map[string]int64{}}
					}
					if len(off.terms) != 0 {
						okArms = false
						continue
					}
					ef := w.factsOnEdge(sp.Block().Preds[i], sp.Block())
					ln := int64(-1)
					for l := range ef {
						bin, ok := l.V.(*ssa.BinOp)
						if !ok || !((bin.Op == token.EQL && l.Pol) || (bin.Op == token.NEQ && !l.Pol)) {
							continue
						}
						if la := lenArg(bin.X); la != nil && la == serial {
							if k, ok := intConst(bin.Y); ok {
								ln = k
							}
						}
					}
					if ln < 0 {
						okArms = false
						continue
					}
					arms[ln] = off.c
				}
			} else {
				okArms = false
			}
			if sp, ok := start.(*ssa.Phi); ok && !(okArms && len(arms) == 2) {
				// the admitted lengths as value sets: the lengths with which each edge into the start of the loop can be
				// taken (a guard `len != 3 && len != 4` followed by `if len == 3` leaves {4} on the other edge)
				lf := w.newByteFlow(mh, func(v ssa.Value) bool {
					la := lenArg(v)
					return la != nil && (la == serial || w.SameValue(mh, la, serial))
				}, nil)
				arms2 := map[int64]int64{}
				if app != nil {
					app.nPad = 0 // counted again below
				}
				ok2 := !lf.Mentioned.has(255) // every compared constant is below the saturation point of the domain
				for i, e := range sp.Edges {
					set := lf.onEdge(sp.Block().Preds[i], sp.Block())
					if set.empty() {
						continue
					}
					off := lin(w, e, func(ssa.Value) string { return "" })
					if app != nil {
						k, ok := app.padOf(e)
						if !ok {
							ok2 = false
							continue
						}
						off = linForm{c: k, terms: map[string]int64{}}
					}
					if len(off.terms) != 0 || set.count() > 8 {
						ok2 = false
						continue
					}
					for _, ln := range set.list() {
						if prev, dup := arms2[ln]; dup && prev != off.c {
							ok2 = false
						}
						arms2[ln] = off.c
					}
				}
				if ok2 && len(arms2) > 0 {
					okArms, arms = true, arms2
				}
			}
			if of != nil {
				okArms, arms = of.okArms, of.arms
			}
			good := okArms && len(arms) == 2 && arms[3] == 2 && arms[4] == 0
			for ln, off := range arms {
				if 2*ln+off != dstLen {
					good = false
				}
			}
			c.Check(good, "R4.modhex", "ModHex|exactly the 3-byte (offset 2) and 4-byte (offset 0) forms, 2*len+offset == 8", w.FnPos(mh), fmt.Sprint(arms), "the admitted serial lengths / offsets are not {3:2, 4:0} filling exactly 8 characters: "+fmt.Sprint(arms))
			// the 3-byte arm writes alphabet[0] to dst[0], dst[1]
			nPad := 0
			for _, b := range mh.Blocks {
				for _, ins := range b.Instrs {
					if st, ok := ins.(*ssa.Store); ok {
						if ia, ok := st.Addr.(*ssa.IndexAddr); ok && (ia.X == dst || sameArrayAs(dst, ia.X)) {
							if k, ok := intConst(ia.Index); ok && (k == 0 || k == 1) {
								if ix, ok := st.Val.(*ssa.Index); ok {
									if z, ok := intConst(ix.Index); ok && z == 0 {
										nPad++
									}
								} else if cst, ok := st.Val.(*ssa.Const); ok && cst.Value != nil {
									nPad++ // constant-folded alphabet[0]
								}
							}
						}
					}
				}
			}
			if app != nil {
				nPad = app.nPad
			}
			if of != nil && of.padLoop {
				nPad = 2 // positions [0, pad) receive alphabet[0]; pad is 2 for the 3-byte form and 0 for the 4-byte form (arms above)
			}
			c.Check(nPad == 2, "R4.modhex", "ModHex|old serials padded with two zero digits", w.FnPos(mh), "dst[0], dst[1] = alphabet[0]", "the 3-byte form is not padded with two ModHex zero digits")
			// serial = ext.Value[2:] of the matching extension; absent -> error; other lengths -> error
			sx := w.Expr(serial)
			okSerial := false
			{
				// produced by a helper: every value it may yield is nil or ext.Value[2:]
				nSl := 0
				okSerial = true
				serialTop, atTop := serial, mh.Blocks[0].Instrs[0]
				if encSite != nil {
					serialTop, atTop = w.canon(top, serial), ssa.Instruction(encSite)
					w.Focus(top)
				}
				for _, lf := range w.Leaves(serialTop, atTop) {
					if isNilConst(strip(lf.Val)) {
						continue
					}
					sl, isSl := strip(lf.Val).(*ssa.Slice)
					lo, isK := int64(0), false
					if isSl && sl.Low != nil {
						lo, isK = intConst(sl.Low)
					}
					if isSl && isK && lo == 2 && sl.High == nil && strings.HasSuffix(w.Expr(sl.X), ".Value") {
						nSl++
					} else {
						okSerial = false
					}
				}
				okSerial = okSerial && nSl >= 1
			}
			c.Check(okSerial, "R4.modhex", "ModHex|serial is the extension value after the DER header", w.FnPos(mh), "ext.Value[2:]", "the serial bytes are not the extension value after its two header bytes: "+shortName(sx))
			for _, r := range w.MayBeNilReturns(mh) {
				okDom := false
				if sp, ok := start.(*ssa.Phi); ok {
					okDom = sp.Block().Dominates(r.Block())
				}
				if of != nil {
					okDom = of.head.Dominates(r.Block())
				}
				isNil, known := f.KnownNil(r.Block(), serial)
				if !known && encSite != nil {
					isNil, known = w.Facts(top).KnownNil(encSite.Block(), w.canon(top, serial))
				}
				c.Check(okDom && known && !isNil, "R4.modhex", "ModHex|success only for an admitted length of a present extension", w.Pos(r.Pos()), "dominated by the admitted arms; must-fact serial != nil", "ModHex can succeed for a missing extension or a length outside {3,4}")
			}
		}
	}

	// ---- R5: PEM loop ----
	if pp := w.Func("agent/utils", "ParsePEMCertificates"); pp != nil {
		c.Saw(pp)
		f := w.Facts(pp)
		var dec *ssa.Call
		for _, call := range callsTo(pp, "encoding/pem.Decode") {
			dec, _ = call.(*ssa.Call)
		}
		// the decoding loop in a helper that hands back the blocks and what is left of the input
		var decHelper *ssa.Function
		var decSite *ssa.Call
		if dec == nil {
			for _, call := range w.callsToDeep(pp, "encoding/pem.Decode") {
				cv, _ := call.(*ssa.Call)
				if cv == nil || cv.Parent() == pp {
					continue
				}
				if sites := w.sitesIn(pp, cv.Parent()); len(sites) == 1 {
					if sc, ok := sites[0].(*ssa.Call); ok && sc.Parent() == pp {
						dec, decHelper, decSite = cv, cv.Parent(), sc
					}
				}
			}
		}
		if dec == nil {
			c.Bad("R5.pem", "ParsePEMCertificates|decodes PEM blocks", w.FnPos(pp), "no pem.Decode call")
			return
		}
		blk, rest := extractOf(dec, 0), extractOf(dec, 1)
		// data for the next round is the rest
		okRest := false
		if phi, ok := dec.Call.Args[0].(*ssa.Phi); ok {
			saw0, sawRest := false, false
			for _, e := range phi.Edges {
				switch {
				case w.Expr(e) == "p0" || (decHelper != nil && w.ExprIn(pp, e) == "p0"):
					saw0 = true
				case e == rest:
					sawRest = true
				default:
					saw0 = false
				}
			}
			okRest = saw0 && sawRest
		}
		c.Check(okRest, "R5.pem", "ParsePEMCertificates|continues with the undecoded rest", w.Pos(dec.Pos()), "data = rest", "the loop does not continue with exactly the bytes left after the decoded block")
		// nil block: success only when the rest is white space
		nNil := 0
		for _, r := range liveReturns(pp) {
			isNil, known := f.KnownNil(r.Block(), blk)
			if !known || !isNil {
				continue
			}
			nNil++
			ws := f.Any(r.Block(), func(l Lit) bool {
				bin, ok := l.V.(*ssa.BinOp)
				if !ok {
					return false
				}
				la := lenArg(bin.X)
				k, isK := intConst(bin.Y)
				if la == nil || !isK || k != 0 || !strings.HasPrefix(w.Expr(la), "call<bytes.TrimSpace>(") {
					return false
				}
				return (bin.Op == token.EQL && l.Pol) || (bin.Op == token.NEQ && !l.Pol)
			})
			mayNil := false
			for _, lf := range w.Leaves(r.Results[1], r) {
				if !w.NonNil(lf.Val, lf.Facts) {
					mayNil = true
				}
			}
			if mayNil {
				c.Check(ws, "R5.pem", "ParsePEMCertificates|end of bundle only on white space", w.Pos(r.Pos()), "must-fact len(TrimSpace(data)) == 0", "trailing garbage after the last certificate is accepted")
			} else {
				c.Ok("R5.pem", "ParsePEMCertificates|garbage is an error", w.Pos(r.Pos()), "non-nil error")
			}
		}
		// the same obligation read at the successful returns, however the loop is left: what remains of the input is
		// empty or white space (the remainder being the value the decoder is fed with)
		if nNil == 0 {
			dataV := dec.Call.Args[0]
			isData := func(v ssa.Value) bool {
				v = throughCell(strip(v))
				if decHelper != nil {
					// what the helper hands back as the remainder: on every return, the value its decoder is fed with
					ex, isEx := v.(*ssa.Extract)
					if !isEx || ex.Tuple != ssa.Value(decSite) {
						return false
					}
					for _, r := range liveReturns(decHelper) {
						if ex.Index >= len(r.Results) || throughCell(strip(r.Results[ex.Index])) != throughCell(strip(dataV)) {
							return false
						}
					}
					return true
				}
				return v == throughCell(strip(dataV)) || w.Expr(v) == w.Expr(dataV)
			}
			for _, r := range w.MayBeNilReturns(pp) {
				if pp.Recover != nil && r.Block() == pp.Recover {
					continue
				}
				nNil++
				okEnd := f.Any(r.Block(), func(l Lit) bool {
					bin, ok := l.V.(*ssa.BinOp)
					if !ok {
						return false
					}
					la := lenArg(bin.X)
					k, isK := intConst(bin.Y)
					if la == nil || !isK || k != 0 {
						return false
					}
					zero := (bin.Op == token.EQL && l.Pol) || (bin.Op == token.NEQ && !l.Pol) || (bin.Op == token.GTR && !l.Pol)
					if !zero {
						return false
					}
					if isData(la) {
						return true // nothing left
					}
					if tc, isCall := throughCell(strip(la)).(*ssa.Call); isCall && calleeName(tc) == "bytes.TrimSpace" && len(tc.Call.Args) == 1 {
						return isData(tc.Call.Args[0])
					}
					return false
				})
				c.Check(okEnd, "R5.pem", "ParsePEMCertificates|end of bundle only on white space", w.Pos(r.Pos()), "must-fact: the remaining input is empty or white space", "trailing garbage after the last certificate is accepted")
			}
		}
		c.Floor("R5.pem", nNil, 1, "returns on a nil PEM block")
		// success means nothing but white space is left: every possibly-nil return holds the must-fact that the
		// remaining data is empty (the loop ran out) or trims to nothing (end of bundle)
		dataArg := dec.Call.Args[0]
		for _, r := range w.MayBeNilReturns(pp) {
			if pp.Recover != nil && r.Block() == pp.Recover {
				continue
			}
			isConsumedLit := func(l Lit) bool {
				bin, ok := l.V.(*ssa.BinOp)
				if !ok {
					return false
				}
				la := lenArg(bin.X)
				k, isK := intConst(bin.Y)
				if la == nil || !isK || k != 0 {
					return false
				}
				isEmpty := (bin.Op == token.EQL && l.Pol) || (bin.Op == token.NEQ && !l.Pol) || (bin.Op == token.GTR && !l.Pol) || (bin.Op == token.LEQ && l.Pol)
				if !isEmpty {
					return false
				}
				if la == dataArg {
					return true
				}
				if tc, ok := la.(*ssa.Call); ok && calleeName(tc) == "bytes.TrimSpace" && len(tc.Call.Args) == 1 && tc.Call.Args[0] == dataArg {
					return true
				}
				return false
			}
			// at the return block, or - when loop exit and `break` merge there - on every edge into it
			var consumedAt func(b *ssa.BasicBlock, depth int) bool
			consumedAt = func(b *ssa.BasicBlock, depth int) bool {
				if f.Any(b, isConsumedLit) {
					return true
				}
				if depth > 2 || len(b.Preds) == 0 {
					return false
				}
				for _, p := range b.Preds {
					okEdge := false
					for l := range w.factsOnEdge(p, b) {
						if isConsumedLit(l) {
							okEdge = true
						}
					}
					if !okEdge && !(len(p.Instrs) == 1 && consumedAt(p, depth+1)) {
						return false
					}
				}
				return true
			}
			consumed := consumedAt(r.Block(), 0)
			c.Check(consumed, "R5.pem", "ParsePEMCertificates|success only when all input was consumed", w.Pos(r.Pos()), "must-fact len(data) == 0 or len(TrimSpace(data)) == 0", "the parser can succeed with unparsed bytes left (the loop ends while data is non-empty): trailing garbage is accepted")
		}
		// append of the parsed certificate, in order, error returned
		okApp := false
		for _, call := range callsIn(pp) {
			if b, ok := call.Common().Value.(*ssa.Builtin); ok && b.Name() == "append" {
				if sl, ok := call.Common().Args[1].(*ssa.Slice); ok {
					if a, ok := sl.X.(*ssa.Alloc); ok {
						for _, v := range storesInto(a) {
							if ex, ok := v.(*ssa.Extract); ok && ex.Index == 0 {
								if pc, ok := ex.Tuple.(*ssa.Call); ok && strings.HasSuffix(calleeName(pc), "yubiattest.ParseCertificate") && strings.HasSuffix(w.Expr(pc.Call.Args[0]), "#0.Bytes") {
									isNil, known := f.KnownNil(call.Block(), extractOf(pc, 1))
									okApp = known && isNil && w.ErrEdgeEnds(pp, extractOf(pc, 1))
									// ... every one of them: once a block has been parsed, the next block is not decoded (and the
									// function does not return successfully) without the append - a "seen before" or "not wanted"
									// test between the two drops certificates of the bundle
									reach := ReachableAvoiding(pc, map[ssa.Instruction]bool{call.(ssa.Instruction): true})
									skipped := ""
									if dec != nil && dec.Parent() == pp && reach(dec) {
										skipped = w.Pos(dec.Pos())
									}
									for _, r := range w.MayBeNilReturns(pp) {
										if reach(r) {
											skipped = w.Pos(r.Pos())
										}
									}
									c.Check(skipped == "", "R5.pem", "ParsePEMCertificates|no parsed certificate is left out", w.Pos(call.Pos()), "from a successful parse the loop goes on only through the append", "a certificate that was parsed can be left out of the result (the loop goes on, at "+skipped+", without the append): the bundle does not yield all its certificates")
								}
							}
						}
					}
				}
			}
		}
		c.Check(okApp, "R5.pem", "ParsePEMCertificates|each block's certificate appended, parse errors returned", w.FnPos(pp), "certs = append(certs, ParseCertificate(block.Bytes))", "a decoded block is not parsed and appended (or its parse error is dropped)")
	}
}

type mhWrite struct {
	idx ssa.Value
	val ssa.Value
	st  *ssa.Store
}

// mhOffset: ModHex written with a computed offset - for the i-th serial byte b, dst[pad+2*i] = alphabet[b>>4&15] and
// dst[pad+2*i+1] = alphabet[b&15], pad = len(dst) - 2*len(serial), the positions before pad filled with alphabet[0].
type mhOffset struct {
	serial  ssa.Value
	head    *ssa.BasicBlock // head of the loop over the serial bytes
	arms    map[int64]int64 // admitted serial length -> offset of its first character
	okArms  bool
	padLoop bool
}

func modhexOffsetForm(w *World, mh *ssa.Function, dst ssa.Value, dstLen int64, writes []mhWrite) *mhOffset {
	var serial, idx ssa.Value
	var hiIdx, loIdx ssa.Value
	var at *ssa.Store
	for _, x := range writes {
		ix, isIdx := x.val.(*ssa.Index)
		if !isIdx {
			continue
		}
		kind, byteVal := nibbleOf(ix.Index)
		if kind == "" {
			continue
		}
		ld, ok := strip(byteVal).(*ssa.UnOp)
		if !ok {
			return nil
		}
		ia, ok := ld.X.(*ssa.IndexAddr)
		if !ok || !isForwardRangeIndex(ia.Index) {
			return nil
		}
		if serial != nil && (ia.X != serial || ia.Index != idx) {
			return nil
		}
		serial, idx = ia.X, ia.Index
		if kind == "hi" {
			hiIdx, at = x.idx, x.st
		} else {
			loIdx = x.idx
		}
	}
	if serial == nil || hiIdx == nil || loIdx == nil {
		return nil
	}
	name := func(v ssa.Value) string {
		if v == idx {
			return "i"
		}
		if la := lenArg(v); la != nil && (la == serial || w.SameValue(mh, la, serial)) {
			return "L"
		}
		return ""
	}
	isForm := func(v ssa.Value, c int64, withI bool) bool {
		f := lin(w, v, name)
		want := map[string]int64{"L": -2}
		if withI {
			want["i"] = 2
		}
		if f.c != c || len(f.terms) != len(want) {
			return false
		}
		for k, n := range want {
			if f.terms[k] != n {
				return false
			}
		}
		return true
	}
	if !isForm(hiIdx, dstLen, true) || !isForm(loIdx, dstLen+1, true) {
		return nil
	}
	of := &mhOffset{serial: serial, arms: map[int64]int64{}}
	switch x := idx.(type) {
	case *ssa.BinOp:
		of.head = x.Block()
	case *ssa.Phi:
		of.head = x.Block()
	}
	if of.head == nil {
		return nil
	}
	// admitted lengths where the bytes are written
	lf := w.newByteFlow(mh, func(v ssa.Value) bool {
		la := lenArg(v)
		return la != nil && (la == serial || w.SameValue(mh, la, serial))
	}, nil)
	set := lf.At(at)
	if !set.empty() && !set.full() && set.count() <= 8 && !lf.Mentioned.has(255) {
		of.okArms = true
		for _, ln := range set.list() {
			of.arms[ln] = dstLen - 2*ln
		}
	}
	// the padding: dst[j] = alphabet[0] for j = 0 .. pad-1
	for _, b := range mh.Blocks {
		for _, ins := range b.Instrs {
			st, ok := ins.(*ssa.Store)
			if !ok {
				continue
			}
			ia, ok := st.Addr.(*ssa.IndexAddr)
			if !ok || ia.X != dst || ia.Index == hiIdx || ia.Index == loIdx {
				continue
			}
			zero := false
			if ix, ok := st.Val.(*ssa.Index); ok {
				if z, ok := intConst(ix.Index); ok && z == 0 {
					zero = true
				}
			} else if cst, ok := st.Val.(*ssa.Const); ok && cst.Value != nil {
				zero = true
			}
			phi, isPhi := ia.Index.(*ssa.Phi)
			if !zero || !isPhi || !isForwardRangeIndex(phi) {
				continue
			}
			if iff, ok := phi.Block().Instrs[len(phi.Block().Instrs)-1].(*ssa.If); ok {
				if cond, ok := iff.Cond.(*ssa.BinOp); ok && cond.Op == token.LSS && cond.X == ssa.Value(phi) && isForm(cond.Y, dstLen, false) && phi.Block().Dominates(of.head) {
					of.padLoop = true
				}
			}
		}
	}
	return of
}

// sameArrayAs: dst is the whole-array slice a[:] and x is the array a itself.
func sameArrayAs(dst, x ssa.Value) bool {
	sl, ok := dst.(*ssa.Slice)
	return ok && sl.Low == nil && sl.High == nil && sl.X == x
}
