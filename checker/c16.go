package main

import "golang.org/x/tools/go/ssa"

const attestPkg = "attestation/yubiattest"

func init() {
	register(&property{
		ID: "C16",
		Meta: propMeta{
			Level:       "Structural necessary conditions of 'decodes faithfully / extraction is total': (R1) every index, slice, assertion and explicit panic on the call trees of the lenient certificate parser, the PEM bundle parser and the device-serial extractor is discharged by interval must-facts or a reviewed justification; (R2) the parser's algorithm/OID tables equal crypto/x509's own source tables; (R3) trailing data is refused and the RSA arm ignores the algorithm parameters while keeping the modulus/exponent sign checks; (R4) the ModHex alphabet has 16 distinct characters, indices are masked to 4 bits, the extension OID is the Yubico serial OID, and the length switch admits exactly the 3-byte (offset 2) and 4-byte (offset 0) forms with 2*len+offset == 8; (R5) the PEM loop returns the list only when the rest is white space. Field-by-field agreement with crypto/x509 on real certificates is not decided (it needs running both).",
			Technique:   "static analysis: panic-obligation discharge + constant-table comparison against standard-library source + decision-table extraction on go/ssa",
			Explanation: "Obligations are enumerated over the repository functions reachable from ParseCertificate, ParsePEMCertificate(s) and ModHex; tables are evaluated from the type-checked syntax of the repository and of crypto/x509 (loaded from source).",
			Assumptions: []string{"encoding/asn1, cryptobyte, crypto/ecdh do not panic on arbitrary input and Bytes() has the documented fixed length"},
			Trusted:     []string{"go/packages", "go/types", "go/ssa", "crypto/x509 source as oracle"},
			RuleDoc: map[string]string{
				"R1.bounds":   "index/slice/assertion obligations of the parsers and of ModHex",
				"R1.nil":      "nil-dereference obligations (use before error check)",
				"R2.tables":   "OID / algorithm tables equal to crypto/x509's source tables",
				"R4.alphabet": "ModHex alphabet, 4-bit masking, serial extension OID",
			},
		},
		Run: runC16,
	})
}

func c16Entries(w *World) []*ssa.Function {
	var out []*ssa.Function
	for _, f := range []*ssa.Function{w.Func(attestPkg, "ParseCertificate"), w.Func(attestPkg, "ModHex"), w.Func("agent/utils", "ParsePEMCertificates"), w.Func("agent/utils", "ParsePEMCertificate")} {
		if f != nil {
			out = append(out, f)
		}
	}
	return out
}

func runC16(c *Ctx) {
	w := c.w
	for _, n := range []string{"ParseCertificate", "ModHex"} {
		if w.Func(attestPkg, n) == nil {
			c.Unresolved("R1.bounds", "yubiattest."+n)
		}
	}
	runPanicRules(c, "R1", c16Entries(w), 30)
	tablesC16(c)
}
