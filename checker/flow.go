package main

import (
	"go/token"
	"go/types"
	"sort"
	"strings"

	"golang.org/x/tools/go/ssa"
)

// Roots computes the set of origins in the backward value slice of v: where the value ultimately comes from.
// Origins are rendered as strings:
//
//	"const"                      any constant
//	"p<i>" / "p<i>.<path>"       parameter i of the function v lives in (with the field path loaded from it)
//	"global:<pkg>.<name>"        package-level variable
//	"call:<callee>"              result of a call that is neither pure-string-building nor an inlinable repository function
//	"fresh"                      fresh allocation
//	"other:<what>"               anything not understood
//
// Pure builders (string concatenation, path.Join, fmt.Sprintf, strings.*, conversions) pass their operands through.
// Static repository callees are inlined (their returned values' roots, with parameters substituted by the arguments' roots).
type rootSet map[string]bool

func (r rootSet) add(o rootSet) {
	for k := range o {
		r[k] = true
	}
}

func (r rootSet) list() []string {
	var out []string
	for k := range r {
		out = append(out, k)
	}
	sort.Strings(out)
	return out
}

var pureBuilders = map[string]bool{
	"path.Join": true, "path/filepath.Join": true, "fmt.Sprintf": true, "fmt.Sprint": true,
	"strings.ToLower": true, "strings.ToUpper": true, "strings.TrimSpace": true, "strings.Join": true, "strings.Split": true,
	"strings.TrimSuffix": true, "strings.TrimPrefix": true, "path.Clean": true, "path/filepath.Clean": true, "builtin:append": true,
}

func (w *World) Origins(v ssa.Value) rootSet {
	return w.roots(v, 0, map[ssa.Value]bool{})
}

func (w *World) roots(v ssa.Value, depth int, seen map[ssa.Value]bool) rootSet {
	out := rootSet{}
	if v == nil {
		return out
	}
	if depth > 24 {
		out["other:depth"] = true
		return out
	}
	if seen[v] {
		return out
	}
	seen[v] = true
	defer delete(seen, v)
	switch x := v.(type) {
	case *ssa.Const:
		out["const"] = true
	case *ssa.Parameter:
		// a helper's parameter, seen from the focus frame, has the origins of the argument at its call site
		if g := x.Parent(); w.focus != nil && g != w.focus && w.transparent(g) && w.rootsInl[g] == 0 && !w.dynCallable(g) {
			if sites := w.sitesIn(w.focus, g); len(sites) > 0 {
				idx := paramIndex(x)
				var first rootSet
				same := true
				for i, s := range sites {
					args := s.Common().Args
					if idx < 0 || idx >= len(args) {
						same = false
						break
					}
					rs := w.roots(args[idx], depth+1, seen)
					if i == 0 {
						first = rs
					} else if strings.Join(first.list(), ",") != strings.Join(rs.list(), ",") {
						same = false
					}
				}
				if same {
					return first
				}
				out["other:ambiguous-frame"] = true
				return out
			}
		}
		out["p"+itoa(paramIndex(x))] = true
	case *ssa.FreeVar:
		if b := freeVarBinding(x); b != nil {
			return w.roots(b, depth+1, seen)
		}
		out["other:freevar"] = true
	case *ssa.Global:
		out["global:"+x.Pkg.Pkg.Path()+"."+x.Name()] = true
	case *ssa.Function, *ssa.MakeClosure, *ssa.Builtin:
		out["const"] = true
	case *ssa.ChangeType:
		return w.roots(x.X, depth, seen)
	case *ssa.ChangeInterface:
		return w.roots(x.X, depth, seen)
	case *ssa.MakeInterface:
		return w.roots(x.X, depth, seen)
	case *ssa.Convert:
		return w.roots(x.X, depth+1, seen)
	case *ssa.BinOp:
		out.add(w.roots(x.X, depth+1, seen))
		out.add(w.roots(x.Y, depth+1, seen))
	case *ssa.Phi:
		for _, e := range x.Edges {
			out.add(w.roots(e, depth+1, seen))
		}
	case *ssa.Extract:
		if nx, ok := x.Tuple.(*ssa.Next); ok {
			if rg, ok := nx.Iter.(*ssa.Range); ok {
				return w.roots(rg.X, depth+1, seen)
			}
		}
		if lk, ok := x.Tuple.(*ssa.Lookup); ok {
			return w.roots(lk, depth+1, seen)
		}
		if ta, ok := x.Tuple.(*ssa.TypeAssert); ok {
			return w.roots(ta.X, depth+1, seen)
		}
		return w.rootsCall(x.Tuple, x.Index, depth, seen)
	case *ssa.Call:
		return w.rootsCall(x, 0, depth, seen)
	case *ssa.Slice:
		// slice of a local array built element by element (varargs): roots of the stored elements
		if a, ok := x.X.(*ssa.Alloc); ok {
			out.add(w.elemRoots(a, depth, seen))
			return out
		}
		return w.roots(x.X, depth+1, seen)
	case *ssa.Alloc:
		out.add(w.elemRoots(x, depth, seen))
		if len(out) == 0 {
			out["fresh"] = true
		}
	case *ssa.MakeSlice, *ssa.MakeMap:
		out["fresh"] = true
	case *ssa.Field:
		for r := range w.roots(x.X, depth+1, seen) {
			out[extendPath(r, fieldName(x.X.Type(), x.Field))] = true
		}
	case *ssa.FieldAddr:
		for r := range w.roots(x.X, depth+1, seen) {
			out[extendPath(r, fieldName(x.X.Type(), x.Field))] = true
		}
	case *ssa.IndexAddr:
		return w.roots(x.X, depth+1, seen)
	case *ssa.Index:
		return w.roots(x.X, depth+1, seen)
	case *ssa.Lookup:
		out.add(w.roots(x.X, depth+1, seen))
		out.add(w.roots(x.Index, depth+1, seen))
	case *ssa.TypeAssert:
		return w.roots(x.X, depth+1, seen)
	case *ssa.UnOp:
		if x.Op != token.MUL {
			return w.roots(x.X, depth+1, seen)
		}
		// load: cell or memory path
		addr := x.X
		if fv, ok := addr.(*ssa.FreeVar); ok {
			if b := freeVarBinding(fv); b != nil {
				addr = b
			}
		}
		if a, ok := addr.(*ssa.Alloc); ok {
			if stores, ok2 := cellStores(a); ok2 && len(stores) > 0 {
				for _, s := range cellReaching(stores, x) {
					out.add(w.roots(s.Val, depth+1, seen))
				}
				return out
			}
			// struct/array local: union of everything stored into it
			out.add(w.elemRoots(a, depth, seen))
			if len(out) == 0 {
				out["fresh"] = true
			}
			return out
		}
		return w.roots(addr, depth+1, seen)
	default:
		out["other:"+strings.TrimPrefix(strings.TrimPrefix(typeName(v), "*ssa."), "ssa.")] = true
	}
	return out
}

func typeName(v interface{}) string {
	return strings.TrimPrefix(strings.TrimPrefix(sprintT(v), "*"), "ssa.")
}

func sprintT(v interface{}) string {
	switch v.(type) {
	case *ssa.Next:
		return "Next"
	case *ssa.Range:
		return "Range"
	case *ssa.Select:
		return "Select"
	}
	return "value"
}

func extendPath(root, field string) string {
	if strings.HasPrefix(root, "p") || strings.HasPrefix(root, "global:") {
		return root + "." + field
	}
	return root
}

// elemRoots: roots of every value stored into (fields/elements of) a local aggregate.
func (w *World) elemRoots(a *ssa.Alloc, depth int, seen map[ssa.Value]bool) rootSet {
	out := rootSet{}
	var visit func(addr ssa.Value)
	visit = func(addr ssa.Value) {
		refs := addr.Referrers()
		if refs == nil {
			return
		}
		for _, r := range *refs {
			switch u := r.(type) {
			case *ssa.Store:
				if u.Addr == addr {
					out.add(w.roots(u.Val, depth+1, seen))
				}
			case *ssa.FieldAddr:
				visit(u)
			case *ssa.IndexAddr:
				visit(u)
			}
		}
	}
	visit(a)
	return out
}

func (w *World) rootsCall(v ssa.Value, idx int, depth int, seen map[ssa.Value]bool) rootSet {
	out := rootSet{}
	call, ok := v.(*ssa.Call)
	if !ok {
		out["other:tuple"] = true
		return out
	}
	name := calleeName(call)
	if pureBuilders[name] {
		for _, a := range callArgs(call) {
			out.add(w.roots(a, depth+1, seen))
		}
		return out
	}
	callee := call.Call.StaticCallee()
	if callee != nil && w.InRepo(callee) && callee.Blocks != nil {
		// inline: roots of returned values with parameter substitution
		args := call.Call.Args
		if w.rootsInl == nil {
			w.rootsInl = map[*ssa.Function]int{}
		}
		w.rootsInl[callee]++
		defer func() { w.rootsInl[callee]-- }()
		for _, r := range returnsOf(callee) {
			if callee.Recover != nil && r.Block() == callee.Recover {
				continue
			}
			if idx >= len(r.Results) {
				continue
			}
			for rt := range w.roots(r.Results[idx], depth+1, seen) {
				if strings.HasPrefix(rt, "p") && len(rt) > 1 && rt[1] >= '0' && rt[1] <= '9' {
					// p<i>[.path]
					j := 1
					for j < len(rt) && rt[j] >= '0' && rt[j] <= '9' {
						j++
					}
					pi := atoi(rt[1:j])
					suffix := rt[j:]
					if pi < len(args) {
						for ar := range w.roots(args[pi], depth+1, seen) {
							if suffix != "" && (strings.HasPrefix(ar, "p") || strings.HasPrefix(ar, "global:")) {
								out[ar+suffix] = true
							} else {
								out[ar] = true
							}
						}
						continue
					}
				}
				out[rt] = true
			}
		}
		return out
	}
	out["call:"+name] = true
	// backward slice: what the call was given
	for _, a := range callArgs(call) {
		out.add(w.roots(a, depth+1, seen))
	}
	return out
}

func atoi(s string) int {
	n := 0
	for _, ch := range s {
		n = n*10 + int(ch-'0')
	}
	return n
}

// ---- error discipline ----

// errUse describes how the error result of a call is consumed.
type errUse struct {
	Call    ssa.CallInstruction
	Err     ssa.Value
	Tested  bool // compared against nil by a branch
	Direct  bool // returned directly
	Dropped bool // never looked at
}

// errorResult returns the SSA value holding the error result of a call (nil if it has none or it is unused).
func errorResult(call ssa.CallInstruction) (ssa.Value, bool) {
	cv, ok := call.(*ssa.Call)
	if !ok {
		return nil, false
	}
	sig := cv.Call.Signature()
	res := sig.Results()
	if res.Len() == 0 || !isErrorType(res.At(res.Len()-1).Type()) {
		return nil, false
	}
	if res.Len() == 1 {
		return cv, true
	}
	if refs := cv.Referrers(); refs != nil {
		for _, r := range *refs {
			if ex, ok := r.(*ssa.Extract); ok && ex.Index == res.Len()-1 {
				return ex, true
			}
		}
	}
	return nil, true
}

// valueUsers lists instructions using v, looking through stores into local cells (and their loads),
// conversions and phis.
func valueUsers(v ssa.Value) []ssa.Instruction {
	var out []ssa.Instruction
	seen := map[ssa.Value]bool{}
	var rec func(v ssa.Value)
	rec = func(v ssa.Value) {
		if seen[v] {
			return
		}
		seen[v] = true
		refs := v.Referrers()
		if refs == nil {
			return
		}
		for _, r := range *refs {
			switch x := r.(type) {
			case *ssa.Store:
				if x.Val == v {
					if a, ok := x.Addr.(*ssa.Alloc); ok {
						if ar := a.Referrers(); ar != nil {
							for _, u := range *ar {
								if ld, ok := u.(*ssa.UnOp); ok && ld.Op == token.MUL {
									rec(ld)
								}
								if mc, ok := u.(*ssa.MakeClosure); ok {
									fn := mc.Fn.(*ssa.Function)
									for i, b := range mc.Bindings {
										if b == ssa.Value(a) {
											if fr := fn.FreeVars[i].Referrers(); fr != nil {
												for _, fu := range *fr {
													if ld, ok := fu.(*ssa.UnOp); ok && ld.Op == token.MUL {
														rec(ld)
													}
												}
											}
										}
									}
								}
							}
						}
						continue
					}
				}
				out = append(out, r)
			case *ssa.Phi:
				rec(x)
			case *ssa.ChangeInterface:
				rec(x)
			case *ssa.ChangeType:
				rec(x)
			case *ssa.MakeInterface:
				rec(x)
			case *ssa.DebugRef:
			default:
				out = append(out, r)
			}
		}
	}
	rec(v)
	return out
}

// ErrUseOf classifies the consumption of a call's error result.
func ErrUseOf(call ssa.CallInstruction) (errUse, bool) {
	ev, has := errorResult(call)
	if !has {
		return errUse{}, false
	}
	u := errUse{Call: call, Err: ev}
	if ev == nil {
		u.Dropped = true
		return u, true
	}
	for _, ins := range valueUsers(ev) {
		switch x := ins.(type) {
		case *ssa.BinOp:
			if (x.Op == token.EQL || x.Op == token.NEQ) && (isNilConst(x.X) || isNilConst(x.Y)) {
				if br := x.Referrers(); br != nil {
					for _, b := range *br {
						if _, ok := b.(*ssa.If); ok {
							u.Tested = true
						}
					}
				}
			}
		case *ssa.Return:
			u.Direct = true
		}
	}
	if !u.Tested && !u.Direct {
		u.Dropped = true
	}
	return u, true
}

var _ = types.Identical
