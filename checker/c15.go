package main

import (
	"go/types"
	"sort"
	"strings"

	"golang.org/x/tools/go/ssa"
)

func init() {
	register(&property{
		ID: "C15",
		Meta: propMeta{
			Level:       "Structural necessary conditions of the two wire formats: (R1) the set of (legacy key, attribute field) pairs written by the legacy encoder equals the set read by the legacy decoder, the requester is written user@host and split back into the same two fields, the legacy interface-version constant is below the switch threshold of the encoder, and the eight legacy keys are distinct; (R2) the encoder and the JSON arm of the decoder both return successfully only under the must-fact that the same required-field check returned nil, the legacy decoder is reached only on the JSON error edge, and the JSON arm returns the very value that was decoded and checked; (R3) JSON names are present and distinct under case folding and the required-field check tests exactly the three required fields; (R4) every index/slice/assertion/nil-dereference obligation of the package is discharged. String-level equality through encoding/json / strconv and the whitespace / '@' side conditions are not decided.",
			Technique:   "static analysis: writer/reader table extraction from the type-checked syntax + must-fact gating + panic-obligation discharge on go/ssa",
			Explanation: "Legacy key tables are extracted from the syntax of the legacy encoder and decoder and compared as sets keyed by constant value; gates are checked with branch literals holding on every path.",
			Assumptions: []string{"encoding/json round-trips the tagged fields", "strconv.ParseBool/Atoi/ParseInt invert fmt's %v/%d"},
			Trusted:     []string{"go/packages", "go/types", "go/ssa", "encoding/json"},
			RuleDoc: map[string]string{
				"R9.state":  "no memory of earlier calls: on the call tree only frozen package-level variables are touched (known exceptions listed with reasons), and no package-level object is handed out",
				"R1.legacy": "legacy writer/reader key-field tables equal",
				"R2.gate":   "same sanity check on encode and JSON decode; legacy only on JSON error",
				"R3.tags":   "JSON tag uniqueness; sanity check covers exactly the required fields",
				"R4.bounds": "index/slice/assertion obligations of package message",
				"R4.nil":    "nil-dereference obligations of package message",
			},
		},
		Run: runC15,
	})
}

func runC15(c *Ctx) {
	stateRule(c, "R9.state", []*ssa.Function{c.w.Method("message", "Attributes", "Marshal"), c.w.Func("message", "Unmarshal")}, knownState)
	w := c.w
	tablesC15(c)
	marshal := w.Method("message", "Attributes", "Marshal")
	unmarshal := w.Func("message", "Unmarshal")
	legacy := w.Func("message", "UnmarshalLegacy")
	if marshal == nil || unmarshal == nil || legacy == nil {
		c.Unresolved("R2.gate", "message.(*Attributes).Marshal / Unmarshal / UnmarshalLegacy")
		return
	}
	// the sanity check: the method with result error that Marshal calls on its receiver
	var sanity *ssa.Function
	for _, call := range callsIn(marshal) {
		if cv, ok := call.(*ssa.Call); ok {
			if callee := cv.Call.StaticCallee(); callee != nil && recvNamed(callee) == recvNamed(marshal) && errorResultIndex(callee) == 0 && callee.Signature.Params().Len() == 0 && len(cv.Call.Args) == 1 && w.Expr(cv.Call.Args[0]) == "p0" {
				sanity = callee
			}
		}
	}
	if sanity == nil {
		c.Bad("R2.gate", "Marshal|required-field check", w.FnPos(marshal), "the encoder no longer calls a required-field check on its receiver")
		return
	}
	c.Saw(marshal)
	c.Saw(unmarshal)
	sanityNil := func(fn *ssa.Function, b *ssa.BasicBlock, onExpr string) bool {
		f := w.Facts(fn)
		return f.Any(b, func(l Lit) bool {
			y, isNil, ok := nilTest(l)
			if !ok || !isNil {
				return false
			}
			cv, isCall := throughCell(strip(y)).(*ssa.Call)
			return isCall && cv.Call.StaticCallee() == sanity && w.Expr(cv.Call.Args[0]) == onExpr
		})
	}
	n := 0
	for _, r := range w.MayBeNilReturns(marshal) {
		if marshal.Recover != nil && r.Block() == marshal.Recover {
			continue
		}
		n++
		c.Check(sanityNil(marshal, r.Block(), "p0"), "R2.gate", "Marshal|success only after the required-field check", w.Pos(r.Pos()), "must-fact sanityCheck(receiver) == nil", "the encoder can succeed without the required-field check having accepted the attributes")
	}
	c.Floor("R2.gate", n, 1, "successful return of Marshal")

	// Unmarshal
	f := w.Facts(unmarshal)
	var jcall, lcall *ssa.Call
	for _, call := range callsIn(unmarshal) {
		if cv, ok := call.(*ssa.Call); ok {
			if calleeName(cv) == "encoding/json.Unmarshal" {
				jcall = cv
			}
			if cv.Call.StaticCallee() == legacy {
				lcall = cv
			}
		}
	}
	if jcall == nil {
		if strict := w.callsToDeep(unmarshal, "(*encoding/json.Decoder).DisallowUnknownFields"); len(strict) > 0 {
			c.Bad("R2.gate", "Unmarshal|JSON first", w.Pos(strict[0].Pos()), "the JSON arm decodes with DisallowUnknownFields: a JSON object with one key this version does not name is refused there and then reinterpreted as legacy text")
			return
		}
		c.Bad("R2.gate", "Unmarshal|JSON first", w.FnPos(unmarshal), "Unmarshal no longer tries the JSON format")
		return
	}
	decoded := strip(jcall.Call.Args[1])
	decExpr := w.Expr(decoded)
	// every decode starts from a value of its own: the object json decodes into does not share reference-typed
	// state (a pointer / map / slice inside a package-level template) with other decodes - encoding/json decodes
	// into existing pointers and maps in place, so shared state makes one message's fields leak into the next
	{
		w.Focus(unmarshal)
		var shared []string
		for o := range w.Origins(decoded) {
			if strings.HasPrefix(o, "global:"+RepoMod) {
				if g := w.globalByRoot(o); g != nil && hasReferenceParts(g.Type().(*types.Pointer).Elem(), 0) {
					shared = append(shared, shortName(o))
				}
			}
		}
		sort.Strings(shared)
		c.Check(len(shared) == 0, "R2.gate", "Unmarshal|decodes into a fresh value", w.Pos(jcall.Pos()), "the decode target has no reference-typed state shared through a package-level variable", "the JSON decode target aliases package-level state ("+strings.Join(shared, ", ")+"): fields decoded for one message persist into the next (absent keys no longer come back zero)")
	}
	if lcall != nil {
		isNil, known := f.KnownNil(lcall.Block(), jcall)
		c.Check(known && !isNil, "R2.gate", "Unmarshal|legacy only after JSON failed", w.Pos(lcall.Pos()), "must-fact json.Unmarshal err != nil", "text that decodes as JSON can be reinterpreted as legacy text")
		c.Check(w.Expr(lcall.Call.Args[0]) == "p0", "R2.gate", "Unmarshal|legacy decodes the same text", w.Pos(lcall.Pos()), "UnmarshalLegacy(attrsStr)", "the legacy decoder is given something other than the input text")
	}
	c.Check(strings.HasPrefix(w.Expr(jcall.Call.Args[0]), "conv<[]byte>(p0)"), "R2.gate", "Unmarshal|decodes the input text", w.Pos(jcall.Pos()), "json.Unmarshal([]byte(attrsStr), ...)", "the JSON decoder is given something other than the input text")
	n = 0
	for _, r := range w.MayBeNilReturns(unmarshal) {
		if unmarshal.Recover != nil && r.Block() == unmarshal.Recover {
			continue
		}
		// the legacy arm returns the legacy decoder's results
		fromLegacy := false
		for _, lf := range w.Leaves(r.Results[0], r) {
			if ex, ok := lf.Val.(*ssa.Extract); ok && lcall != nil && ex.Tuple == ssa.Value(lcall) {
				fromLegacy = true
			}
		}
		if fromLegacy {
			continue
		}
		n++
		isNil, known := f.KnownNil(r.Block(), jcall)
		c.Check(known && isNil, "R2.gate", "Unmarshal|JSON arm only after a successful decode", w.Pos(r.Pos()), "must-fact json err == nil", "the JSON arm can succeed although decoding failed")
		c.Check(sanityNil(unmarshal, r.Block(), decExpr), "R2.gate", "Unmarshal|JSON arm subject to the same required-field check", w.Pos(r.Pos()), "must-fact sanityCheck(decoded) == nil", "JSON input is accepted without the required-field check the encoder applies")
		c.Check(w.Expr(r.Results[0]) == decExpr, "R2.gate", "Unmarshal|returns the decoded attributes", w.Pos(r.Pos()), "the value json decoded into", "the JSON arm returns something other than the decoded and checked value: "+w.Short(r.Results[0]))
	}
	c.Floor("R2.gate", n, 1, "successful return of the JSON arm")
	// ... and it is what the text said: a step run on the decoded value (populate) may only put an empty part where the
	// text had none - a store into a field of the decoded attributes needs the must-fact that the field is nil and stores
	// a fresh value; anything else (a field derived from another one, a default) changes what comes back
	{
		nSt := 0
		for _, call := range callsIn(unmarshal) {
			cv, ok := call.(*ssa.Call)
			if !ok {
				continue
			}
			g := cv.Call.StaticCallee()
			if g == nil || !w.InRepo(g) || len(g.Blocks) == 0 || len(cv.Call.Args) == 0 || w.Expr(cv.Call.Args[0]) != decExpr || recvNamed(g) == nil {
				continue
			}
			gf := w.Facts(g)
			for _, b := range g.Blocks {
				for _, ins := range b.Instrs {
					st, isSt := ins.(*ssa.Store)
					if !isSt {
						continue
					}
					fa, isFA := st.Addr.(*ssa.FieldAddr)
					if !isFA || fa.X != ssa.Value(g.Params[0]) {
						continue
					}
					nSt++
					fld := fieldName(fa.X.Type(), fa.Field)
					wasNil := gf.Any(b, func(l Lit) bool {
						y, isNil, ok := nilTest(l)
						return ok && isNil && w.ExprIn(g, y) == "p0."+fld
					})
					fresh := false
					switch strip(st.Val).(type) {
					case *ssa.Alloc, *ssa.MakeMap, *ssa.MakeSlice:
						fresh = true
					}
					c.Check(wasNil && fresh, "R2.gate", "Unmarshal|"+shortFn(g)+" only fills in the absent "+fld, w.Pos(st.Pos()), "stores a fresh empty value under the must-fact "+fld+" == nil", "after decoding, "+shortFn(g)+" writes the field "+fld+" of the decoded attributes (not merely an empty value where the text had none): the message that comes back is not the one that was sent")
				}
			}
		}
		c.Note("field stores of the steps run on the decoded attributes: %d", nSt)
	}

	entries := []*ssa.Function{unmarshal, legacy}
	entries = append(entries, w.methodsOf("message", "Attributes")...)
	runPanicRules(c, "R4", entries, 10)
}
