package main

import (
	"go/ast"
	"go/constant"
	"go/token"
	"go/types"
	"reflect"
	"strings"

	"golang.org/x/tools/go/packages"
)

// varInit returns the initializer expression of package-level variable name (nil if none).
func varInit(p *packages.Package, name string) ast.Expr {
	for _, f := range p.Syntax {
		for _, d := range f.Decls {
			gd, ok := d.(*ast.GenDecl)
			if !ok || gd.Tok != token.VAR {
				continue
			}
			for _, sp := range gd.Specs {
				vs := sp.(*ast.ValueSpec)
				for i, n := range vs.Names {
					if n.Name == name && i < len(vs.Values) {
						return vs.Values[i]
					}
				}
			}
		}
	}
	return nil
}

// constOf returns the constant value of expression e in package p (nil when not constant).
func constOf(p *packages.Package, e ast.Expr) constant.Value {
	if tv, ok := p.TypesInfo.Types[e]; ok && tv.Value != nil {
		return tv.Value
	}
	// time.Duration(x).Seconds() etc are not constants; callers handle them
	return nil
}

func constFloat(v constant.Value) (float64, bool) {
	if v == nil {
		return 0, false
	}
	switch v.Kind() {
	case constant.Int, constant.Float:
		f, _ := constant.Float64Val(constant.ToFloat(v))
		return f, true
	}
	return 0, false
}

// evalStructVar evaluates a package-level struct composite literal with constant numeric fields.
func evalStructVar(p *packages.Package, name string) map[string]*float64 {
	e := varInit(p, name)
	cl, ok := e.(*ast.CompositeLit)
	if !ok {
		return nil
	}
	out := map[string]*float64{}
	for _, el := range cl.Elts {
		kv, ok := el.(*ast.KeyValueExpr)
		if !ok {
			return nil
		}
		k, ok := kv.Key.(*ast.Ident)
		if !ok {
			return nil
		}
		if f, ok := constFloat(constOf(p, kv.Value)); ok {
			v := f
			out[k.Name] = &v
		} else {
			out[k.Name] = nil
		}
	}
	return out
}

// MapEntry is one key/value pair of a composite map literal.
type MapEntry struct {
	Key    constant.Value
	KeyObj types.Object // the named constant used as key, if any
	Val    ast.Expr
	Pos    token.Pos
}

// mapLit returns the entries of a composite map literal expression (keys must be constants).
func mapLit(p *packages.Package, e ast.Expr) ([]MapEntry, bool) {
	cl, ok := e.(*ast.CompositeLit)
	if !ok {
		return nil, false
	}
	var out []MapEntry
	for _, el := range cl.Elts {
		kv, ok := el.(*ast.KeyValueExpr)
		if !ok {
			return nil, false
		}
		k := constOf(p, kv.Key)
		if k == nil {
			return nil, false
		}
		var obj types.Object
		switch id := kv.Key.(type) {
		case *ast.Ident:
			obj = p.TypesInfo.Uses[id]
		case *ast.SelectorExpr:
			obj = p.TypesInfo.Uses[id.Sel]
		}
		out = append(out, MapEntry{Key: k, KeyObj: obj, Val: kv.Value, Pos: kv.Pos()})
	}
	return out, true
}

// byteSliceLit evaluates a []byte / [N]byte composite literal of constants.
func byteSliceLit(p *packages.Package, e ast.Expr) ([]byte, bool) {
	cl, ok := e.(*ast.CompositeLit)
	if !ok {
		return nil, false
	}
	out := []byte{}
	for _, el := range cl.Elts {
		v := constOf(p, el)
		if v == nil {
			return nil, false
		}
		i, ok := constant.Int64Val(constant.ToInt(v))
		if !ok || i < 0 || i > 255 {
			return nil, false
		}
		out = append(out, byte(i))
	}
	return out, true
}

// stringSliceLit evaluates a []string composite literal of constants.
func stringSliceLit(p *packages.Package, e ast.Expr) ([]string, bool) {
	cl, ok := e.(*ast.CompositeLit)
	if !ok {
		return nil, false
	}
	var out []string
	for _, el := range cl.Elts {
		v := constOf(p, el)
		if v == nil || v.Kind() != constant.String {
			return nil, false
		}
		out = append(out, constant.StringVal(v))
	}
	return out, true
}

// intSliceLit evaluates a []int-like composite literal (e.g. asn1.ObjectIdentifier{1,2,3}).
func intSliceLit(p *packages.Package, e ast.Expr) ([]int64, bool) {
	cl, ok := e.(*ast.CompositeLit)
	if !ok {
		return nil, false
	}
	var out []int64
	for _, el := range cl.Elts {
		v := constOf(p, el)
		if v == nil {
			return nil, false
		}
		i, ok := constant.Int64Val(constant.ToInt(v))
		if !ok {
			return nil, false
		}
		out = append(out, i)
	}
	return out, true
}

// structTags returns field name -> tag value for key (e.g. "json") of a named struct type.
func structTags(n *types.Named, key string) (names []string, tags map[string]string) {
	tags = map[string]string{}
	st, ok := n.Underlying().(*types.Struct)
	if !ok {
		return nil, tags
	}
	for i := 0; i < st.NumFields(); i++ {
		f := st.Field(i)
		names = append(names, f.Name())
		tags[f.Name()] = reflect.StructTag(st.Tag(i)).Get(key)
	}
	return
}

// jsonName splits a json tag into name and options.
func jsonName(tag string) (name string, opts []string) {
	parts := strings.Split(tag, ",")
	return parts[0], parts[1:]
}

// constDecls lists the constants declared in package p whose type is the named type tname.
func constDecls(p *packages.Package, tname string) map[string]constant.Value {
	out := map[string]constant.Value{}
	sc := p.Types.Scope()
	for _, n := range sc.Names() {
		c, ok := sc.Lookup(n).(*types.Const)
		if !ok {
			continue
		}
		if nt, ok := c.Type().(*types.Named); ok && nt.Obj().Name() == tname {
			out[n] = c.Val()
		}
	}
	return out
}

// funcDecl finds a function or method declaration by name ("Name" or "Type.Name").
func funcDecl(p *packages.Package, name string) *ast.FuncDecl {
	recv := ""
	if i := strings.Index(name, "."); i >= 0 {
		recv, name = name[:i], name[i+1:]
	}
	for _, f := range p.Syntax {
		for _, d := range f.Decls {
			fd, ok := d.(*ast.FuncDecl)
			if !ok || fd.Name.Name != name {
				continue
			}
			if recv == "" && fd.Recv == nil {
				return fd
			}
			if recv != "" && fd.Recv != nil && len(fd.Recv.List) == 1 {
				t := fd.Recv.List[0].Type
				if s, ok := t.(*ast.StarExpr); ok {
					t = s.X
				}
				if id, ok := t.(*ast.Ident); ok && id.Name == recv {
					return fd
				}
			}
		}
	}
	return nil
}

// structLitFields evaluates the constant-valued fields of a struct composite literal (non-constant fields map to nil).
func structLitFields(p *packages.Package, e ast.Expr) (map[string]constant.Value, bool) {
	cl, ok := e.(*ast.CompositeLit)
	if !ok {
		return nil, false
	}
	out := map[string]constant.Value{}
	for _, el := range cl.Elts {
		kv, ok := el.(*ast.KeyValueExpr)
		if !ok {
			return nil, false
		}
		k, ok := kv.Key.(*ast.Ident)
		if !ok {
			return nil, false
		}
		out[k.Name] = constOf(p, kv.Value)
	}
	return out, true
}
