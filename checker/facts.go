package main

import (
	"go/constant"
	"go/token"
	"go/types"
	"sort"

	"golang.org/x/tools/go/ssa"
)

// Lit is a branch literal: the boolean SSA value V is known to equal Pol.
type Lit struct {
	V   ssa.Value
	Pol bool
}

// Facts holds, per block, the set of literals true on EVERY path from the entry to the start of the block.
// in: local facts; nd: local + facts derived from constrained helper results; deep: nd + facts common to the
// call sites of the block's function in Tree(fn) (see deep.go).
type Facts struct {
	fn   *ssa.Function
	w    *World
	in   map[*ssa.BasicBlock]map[Lit]bool
	nd   map[*ssa.BasicBlock]map[Lit]bool
	deep map[*ssa.BasicBlock]map[Lit]bool
	// a view private to one activation of helper specFn (World.Pin): its boolean parameters that the selected call
	// binds to constants
	specFn *ssa.Function
	spec   map[*ssa.Parameter]bool
	specIn map[*ssa.BasicBlock]map[Lit]bool // local facts of specFn recomputed under the bindings (infeasible edges pruned)
}

// specLocal: the must-facts of specFn's blocks when its bound boolean parameters have their constant values: the
// forward dataflow of computeFacts started from those literals, where an edge whose literal contradicts what is
// known is not taken. Blocks absent from the result cannot execute in this activation.
func (f *Facts) specLocal() map[*ssa.BasicBlock]map[Lit]bool {
	if f.specIn != nil {
		return f.specIn
	}
	fn := f.specFn
	in := map[*ssa.BasicBlock]map[Lit]bool{}
	f.specIn = in
	if fn == nil || len(fn.Blocks) == 0 {
		return in
	}
	entry := map[Lit]bool{}
	for p, v := range f.spec {
		entry[Lit{p, v}] = true
	}
	in[fn.Blocks[0]] = entry
	// derive: what a comparison of a boolean with a bound parameter says about that boolean; false = contradiction
	var derive func(m map[Lit]bool) bool
	// feasibleEdge: control can go from p to its successor number i in this activation
	feasibleEdge := func(p *ssa.BasicBlock, i int) bool {
		pin, ok := in[p]
		if !ok {
			return false
		}
		cur := copyFacts(pin)
		for _, l := range edgeLits(p, i) {
			cur[l] = true
		}
		for l := range cur {
			if cur[Lit{l.V, !l.Pol}] {
				return false
			}
		}
		return true
	}
	var deriveOnce func(m map[Lit]bool) bool
	derive = func(m map[Lit]bool) bool {
		for round := 0; round < 4; round++ {
			n := len(m)
			if !deriveOnce(m) {
				return false
			}
			if len(m) == n {
				break
			}
		}
		return true
	}
	deriveOnce = func(m map[Lit]bool) bool {
		for l := range copyFacts(m) {
			if m[Lit{l.V, !l.Pol}] {
				return false
			}
			// a join all but one of whose incoming edges cannot be taken is the value of the remaining edge
			if phi, isPhi := l.V.(*ssa.Phi); isPhi && phi.Parent() == fn {
				var only ssa.Value
				n := 0
				for k, pb := range phi.Block().Preds {
					for si, sb := range pb.Succs {
						if sb == phi.Block() && feasibleEdge(pb, si) {
							only = phi.Edges[k]
							n++
							break
						}
					}
				}
				if n == 1 && only != nil {
					if cv, isConst := only.(*ssa.Const); isConst {
						if bv, isB := boolConst(cv); isB && bv != l.Pol {
							return false
						}
					} else {
						if m[Lit{only, !l.Pol}] {
							return false
						}
						m[Lit{only, l.Pol}] = true
					}
				}
			}
			if u, isNot := l.V.(*ssa.UnOp); isNot && u.Op == token.NOT {
				m[Lit{u.X, !l.Pol}] = true
				if m[Lit{u.X, l.Pol}] {
					return false
				}
			}
			bin, ok := l.V.(*ssa.BinOp)
			if !ok || (bin.Op != token.EQL && bin.Op != token.NEQ) {
				continue
			}
			for _, pair := range [][2]ssa.Value{{bin.X, bin.Y}, {bin.Y, bin.X}} {
				p, isParam := pair[1].(*ssa.Parameter)
				if !isParam {
					continue
				}
				v, bound := f.spec[p]
				if !bound || !isBoolType(pair[0].Type()) {
					continue
				}
				truth := v == l.Pol
				if bin.Op == token.NEQ {
					truth = !truth
				}
				if m[Lit{pair[0], !truth}] {
					return false
				}
				m[Lit{pair[0], truth}] = true
			}
		}
		return true
	}
	changed := true
	for changed {
		changed = false
		for _, b := range fn.Blocks {
			if b == fn.Blocks[0] || b == fn.Recover {
				continue
			}
			var acc map[Lit]bool
			first := true
			for _, p := range b.Preds {
				pin, ok := in[p]
				if !ok {
					continue
				}
				cur := copyFacts(pin)
				for i, s := range p.Succs {
					if s == b {
						for _, l := range edgeLits(p, i) {
							cur[l] = true
						}
						break
					}
				}
				if !derive(cur) {
					continue // this edge cannot be taken in this activation
				}
				if first {
					acc, first = cur, false
				} else {
					for l := range acc {
						if !cur[l] {
							delete(acc, l)
						}
					}
				}
			}
			if first {
				continue
			}
			if old, had := in[b]; !had || len(old) != len(acc) {
				in[b] = acc
				changed = true
			}
		}
	}
	return in
}

// specialise adds, inside the helper of a pinned activation, what the constant boolean arguments imply: the
// parameter's own value, and for a literal comparing a boolean with such a parameter the value of that boolean.
// A block that needs a parameter to have the other value cannot execute in this activation (nil).
func (f *Facts) specialise(b *ssa.BasicBlock, out map[Lit]bool) map[Lit]bool {
	if f.spec == nil || b.Parent() != f.specFn || out == nil {
		return out
	}
	for p, v := range f.spec {
		if out[Lit{p, !v}] {
			return nil
		}
		out[Lit{p, v}] = true
	}
	for l := range copyFacts(out) {
		bin, ok := l.V.(*ssa.BinOp)
		if !ok || (bin.Op != token.EQL && bin.Op != token.NEQ) {
			continue
		}
		for _, pair := range [][2]ssa.Value{{bin.X, bin.Y}, {bin.Y, bin.X}} {
			p, isParam := pair[1].(*ssa.Parameter)
			if !isParam {
				continue
			}
			v, bound := f.spec[p]
			if !bound || !isBoolType(pair[0].Type()) {
				continue
			}
			// (x == p) is l.Pol, p is v  =>  x is (v == l.Pol); for != the opposite
			truth := v == l.Pol
			if bin.Op == token.NEQ {
				truth = !truth
			}
			if out[Lit{pair[0], !truth}] {
				return nil
			}
			out[Lit{pair[0], truth}] = true
		}
	}
	return out
}

func edgeLits(from *ssa.BasicBlock, succIdx int) []Lit {
	if len(from.Instrs) == 0 {
		return nil
	}
	ifi, ok := from.Instrs[len(from.Instrs)-1].(*ssa.If)
	if !ok {
		return nil
	}
	// a degenerate If whose two successors coincide gives no information
	if len(from.Succs) == 2 && from.Succs[0] == from.Succs[1] {
		return nil
	}
	var out []Lit
	var add func(v ssa.Value, pol bool)
	add = func(v ssa.Value, pol bool) {
		out = append(out, Lit{v, pol})
		if u, ok := v.(*ssa.UnOp); ok && u.Op == token.NOT {
			add(u.X, !pol)
		}
	}
	add(ifi.Cond, succIdx == 0)
	return out
}

func computeFacts(fn *ssa.Function) *Facts {
	f := &Facts{fn: fn, in: map[*ssa.BasicBlock]map[Lit]bool{}, nd: map[*ssa.BasicBlock]map[Lit]bool{}, deep: map[*ssa.BasicBlock]map[Lit]bool{}}
	if len(fn.Blocks) == 0 {
		return f
	}
	// nil map = TOP (unvisited)
	f.in[fn.Blocks[0]] = map[Lit]bool{}
	// the recover block is entered from anywhere: no facts
	if fn.Recover != nil {
		f.in[fn.Recover] = map[Lit]bool{}
	}
	changed := true
	for changed {
		changed = false
		for _, b := range fn.Blocks {
			if b == fn.Blocks[0] || b == fn.Recover {
				continue
			}
			var acc map[Lit]bool
			first := true
			for _, p := range b.Preds {
				pin, ok := f.in[p]
				if !ok {
					continue // TOP
				}
				cur := map[Lit]bool{}
				for l := range pin {
					cur[l] = true
				}
				for i, s := range p.Succs {
					if s == b {
						// when both succs are b edgeLits returns nil
						for _, l := range edgeLits(p, i) {
							cur[l] = true
						}
						break
					}
				}
				f.derivePhi(cur)
				// several edges p->b with different literals: keep only the first; conservative (subset)
				if first {
					acc = cur
					first = false
				} else {
					for l := range acc {
						if !cur[l] {
							delete(acc, l)
						}
					}
				}
			}
			if first {
				continue
			}
			old, had := f.in[b]
			if !had || len(old) != len(acc) {
				f.in[b] = acc
				changed = true
			}
		}
	}
	return f
}

// At returns the literals that hold at the start of block b (nil for unreachable blocks).
// The block may belong to fn or to a function of Tree(fn); see deep.go for what is added to the local facts.
func (f *Facts) At(b *ssa.BasicBlock) map[Lit]bool {
	if b == nil {
		return nil
	}
	if f.w == nil {
		return f.in[b]
	}
	if d, ok := f.deep[b]; ok {
		return d
	}
	base := f.w.noUp(b)
	if base == nil {
		f.deep[b] = nil
		return nil
	}
	out := copyFacts(base)
	if f.spec != nil && b.Parent() == f.specFn {
		sb, feasible := f.specLocal()[b]
		if !feasible {
			f.deep[b] = nil
			return nil
		}
		for l := range sb {
			out[l] = true
		}
	}
	f.deep[b] = out // recursion guard
	if up := f.upFacts(b.Parent()); len(up) > 0 {
		n := len(out)
		for l := range up {
			out[l] = true
		}
		if len(out) != n {
			f.w.closeDown(out)
		}
	}
	if f.spec != nil {
		out = f.specialise(b, out)
		f.deep[b] = out
	}
	return out
}

// Primary returns the branch literals themselves (of b's function and, inside a helper, those common to its call
// sites), without the literals derived from the outcome of helper calls. Rules of the form "nothing else gates
// this statement" use it: a consequence of an admitted condition is not an additional condition.
func (f *Facts) Primary(b *ssa.BasicBlock) map[Lit]bool {
	if b == nil || f.w == nil {
		return f.in[b]
	}
	local, ok := f.w.factsOf(b.Parent()).in[b]
	if !ok {
		return nil
	}
	out := copyFacts(local)
	g := b.Parent()
	if g != f.fn && g.Parent() == nil && !f.w.dynCallable(g) {
		var acc map[Lit]bool
		for i, s := range f.w.sitesIn(f.fn, g) {
			if s.Parent() == g {
				continue
			}
			cur := f.Primary(s.Block())
			if i == 0 || acc == nil {
				acc = copyFacts(cur)
			} else {
				for k := range acc {
					if !cur[k] {
						delete(acc, k)
					}
				}
			}
		}
		for k := range acc {
			out[k] = true
		}
	}
	return out
}

// Local returns the literals established by fn's own branches only.
func (f *Facts) Local(b *ssa.BasicBlock) map[Lit]bool { return f.in[b] }

// Holds reports whether literal (v==pol) holds on every path to b.
func (f *Facts) Holds(b *ssa.BasicBlock, v ssa.Value, pol bool) bool {
	return f.At(b)[Lit{v, pol}]
}

// Any reports whether some literal at b satisfies pred.
func (f *Facts) Any(b *ssa.BasicBlock, pred func(Lit) bool) bool {
	at := f.At(b)
	lits := make([]Lit, 0, len(at))
	for l := range at {
		lits = append(lits, l)
	}
	sort.Slice(lits, func(i, j int) bool { return litLess(lits[i], lits[j]) })
	for _, l := range lits {
		if pred(l) {
			return true
		}
	}
	return false
}

// Reachable tells whether block b is reachable from the entry (or is the recover block).
func (f *Facts) Reachable(b *ssa.BasicBlock) bool {
	if b.Parent() != f.fn && f.w != nil {
		_, ok := f.w.factsOf(b.Parent()).in[b]
		return ok
	}
	_, ok := f.in[b]
	return ok
}

// ---- literal interpretation helpers ----

func isNilConst(v ssa.Value) bool {
	c, ok := v.(*ssa.Const)
	return ok && c.Value == nil && !isBasicNonPtr(c)
}

func isBasicNonPtr(c *ssa.Const) bool {
	return false
}

// nilTest interprets a literal as a statement "x is nil" / "x is not nil".
func nilTest(l Lit) (x ssa.Value, isNil bool, ok bool) {
	// a literal over a nil-able (non-boolean) value states "V != nil" (deep.go derives these for values a helper
	// returns directly)
	if _, isBasic := l.V.Type().Underlying().(*types.Basic); !isBasic {
		return l.V, !l.Pol, true
	}
	b, isBin := l.V.(*ssa.BinOp)
	if !isBin || (b.Op != token.EQL && b.Op != token.NEQ) {
		return nil, false, false
	}
	var other ssa.Value
	switch {
	case isNilConst(b.Y):
		other = b.X
	case isNilConst(b.X):
		other = b.Y
	default:
		return nil, false, false
	}
	eq := b.Op == token.EQL
	return other, eq == l.Pol, true
}

// KnownNil tells whether x (after stripping conversions) is known nil / non-nil at block b.
// It returns (isNil, known).
func (f *Facts) KnownNil(b *ssa.BasicBlock, x ssa.Value) (bool, bool) {
	return f.knownNilIn(f.At(b), x)
}

func (f *Facts) knownNilIn(facts map[Lit]bool, x ssa.Value) (bool, bool) {
	x = throughCell(strip(x))
	if f.w != nil {
		x = f.w.resolveUp(f.fn, x)
	}
	for l := range facts {
		if y, isNil, ok := nilTest(l); ok {
			y = throughCell(strip(y))
			if f.w != nil {
				y = f.w.resolveUp(f.fn, y)
			}
			if y == x {
				return isNil, true
			}
		}
	}
	return false, false
}

// throughCell resolves a load of a local variable to the value of its unique reaching store.
func throughCell(v ssa.Value) ssa.Value {
	for i := 0; i < 4; i++ {
		u, ok := v.(*ssa.UnOp)
		if !ok || u.Op != token.MUL {
			return v
		}
		a, ok := u.X.(*ssa.Alloc)
		if !ok {
			return v
		}
		stores, ok2 := cellStores(a)
		if !ok2 || len(stores) == 0 {
			return v
		}
		rs := cellReaching(stores, u)
		if len(rs) != 1 || rs[0].Parent() != u.Parent() || !InstrDominates(rs[0], u) {
			return v
		}
		v = strip(rs[0].Val)
	}
	return v
}

// boolTest: is the boolean value x known at b?
func (f *Facts) KnownBool(b *ssa.BasicBlock, x ssa.Value) (bool, bool) {
	for l := range f.At(b) {
		if l.V == x {
			return l.Pol, true
		}
	}
	return false, false
}

// intConst returns the int64 value of a constant.
func intConst(v ssa.Value) (int64, bool) {
	c, ok := strip(v).(*ssa.Const)
	if !ok || c.Value == nil {
		return 0, false
	}
	if c.Value.Kind() != constant.Int {
		return 0, false
	}
	i, exact := constant.Int64Val(c.Value)
	return i, exact
}

func strConst(v ssa.Value) (string, bool) {
	c, ok := strip(v).(*ssa.Const)
	if !ok || c.Value == nil || c.Value.Kind() != constant.String {
		return "", false
	}
	return constant.StringVal(c.Value), true
}

func boolConst(v ssa.Value) (bool, bool) {
	c, ok := strip(v).(*ssa.Const)
	if !ok || c.Value == nil || c.Value.Kind() != constant.Bool {
		return false, false
	}
	return constant.BoolVal(c.Value), true
}

// strip removes value-preserving wrappers.
func strip(v ssa.Value) ssa.Value {
	for {
		switch x := v.(type) {
		case *ssa.ChangeType:
			v = x.X
		case *ssa.ChangeInterface:
			v = x.X
		case *ssa.MakeInterface:
			v = x.X
		default:
			return v
		}
	}
}

// ---- dominance helpers at instruction granularity ----

func instrIndex(i ssa.Instruction) int {
	for k, x := range i.Block().Instrs {
		if x == i {
			return k
		}
	}
	return -1
}

// InstrDominates: a executes before b on every path reaching b.
func InstrDominates(a, b ssa.Instruction) bool {
	if a.Block() == b.Block() {
		return instrIndex(a) < instrIndex(b)
	}
	return a.Block().Dominates(b.Block())
}

// ReachableFrom computes the blocks reachable from the instruction `from` (positions after it),
// never crossing an instruction in `barrier`. The result maps a block to the first instruction index
// from which it is live (0 = whole block).
func ReachableAvoiding(from ssa.Instruction, barrier map[ssa.Instruction]bool) func(ssa.Instruction) bool {
	type key struct {
		b *ssa.BasicBlock
	}
	start := map[*ssa.BasicBlock]int{} // block -> smallest start index seen
	var work []*ssa.BasicBlock
	visit := func(b *ssa.BasicBlock, idx int) {
		if cur, ok := start[b]; ok && cur <= idx {
			return
		}
		start[b] = idx
		work = append(work, b)
	}
	visit(from.Block(), instrIndex(from)+1)
	// end[b]: index of first barrier at or after start (exclusive end of the live range)
	for len(work) > 0 {
		b := work[len(work)-1]
		work = work[:len(work)-1]
		s := start[b]
		blocked := false
		for k := s; k < len(b.Instrs); k++ {
			if barrier[b.Instrs[k]] {
				blocked = true
				break
			}
		}
		if !blocked {
			for _, succ := range b.Succs {
				visit(succ, 0)
			}
		}
	}
	return func(i ssa.Instruction) bool {
		b := i.Block()
		s, ok := start[b]
		if !ok {
			return false
		}
		idx := instrIndex(i)
		if idx < s {
			return false
		}
		for k := s; k < idx; k++ {
			if barrier[b.Instrs[k]] {
				return false
			}
		}
		return true
	}
}

// MustPassFromEntry: every path from the function entry to `to` crosses one of `through`.
func MustPassFromEntry(fn *ssa.Function, to ssa.Instruction, through map[ssa.Instruction]bool) bool {
	if len(fn.Blocks) == 0 {
		return true
	}
	// reach from a virtual point before the first instruction of the entry block
	start := map[*ssa.BasicBlock]bool{}
	var work []*ssa.BasicBlock
	work = append(work, fn.Blocks[0])
	start[fn.Blocks[0]] = true
	for len(work) > 0 {
		b := work[len(work)-1]
		work = work[:len(work)-1]
		blocked := false
		for _, ins := range b.Instrs {
			if ins == to {
				return false
			}
			if through[ins] {
				blocked = true
				break
			}
		}
		if blocked {
			continue
		}
		for _, s := range b.Succs {
			if !start[s] {
				start[s] = true
				work = append(work, s)
			}
		}
	}
	return true
}

// derivePhi: a boolean phi known to be pol, all of whose edges but one carry the constant !pol, took that one edge
// (the value of `a && b && c` computed into a variable, then tested): the edge's value is pol and everything known at
// the end of that predecessor holds.
func (f *Facts) derivePhi(cur map[Lit]bool) {
	for round := 0; round < 4; round++ {
		var add []Lit
		for l := range cur {
			phi, ok := l.V.(*ssa.Phi)
			if !ok || !isBoolType(phi.Type()) {
				continue
			}
			feasible := -1
			n := 0
			for i, e := range phi.Edges {
				if k, isK := boolConst(e); isK && k != l.Pol {
					continue
				}
				feasible = i
				n++
			}
			if n != 1 {
				continue
			}
			pred := phi.Block().Preds[feasible]
			pin, visited := f.in[pred]
			if !visited {
				continue
			}
			if _, isK := boolConst(phi.Edges[feasible]); !isK {
				add = append(add, Lit{phi.Edges[feasible], l.Pol})
			}
			for pl := range pin {
				add = append(add, pl)
			}
			for i, sblk := range pred.Succs {
				if sblk == phi.Block() {
					add = append(add, edgeLits(pred, i)...)
					break
				}
			}
		}
		changed := false
		for _, a := range add {
			if !cur[a] {
				cur[a] = true
				changed = true
				if u, ok := a.V.(*ssa.UnOp); ok && u.Op == token.NOT {
					cur[Lit{u.X, !a.Pol}] = true
				}
			}
		}
		if !changed {
			return
		}
	}
}
