package main

import "golang.org/x/tools/go/ssa"

func init() {
	register(&property{
		ID: "C10",
		Meta: propMeta{
			Level:       "Structural necessary conditions, decided on all paths of the shim package: (R1) the hardware-certificate table is written only under the must-facts 'cast to certificate succeeded' and 'bytes.Equal(listed key blob, certificate key blob)' for a key of this activation's listing, re-adding returns nil before any effect, absence yields the key-not-found error; (R2) arguments reach the underlying agent unmodified and its results are returned unmodified (pass-through table); (R3) the framed read allocates only under the must-fact length <= bound (constant <= 16 MiB) and write refuses longer data; (R4) no result of a fallible constructor is used before its error is checked, and every index/slice/assertion in the package is discharged; (R5) every error of the underlying agent / framing helpers is returned (one reviewed idiom in remove); (R6) deletions from the certificate table are reachable only from Remove, RemoveAll and the filter's remover. Signature validity, blob identity through x/crypto and duplicate listing are not decided.",
			Technique:   "static analysis: must-fact gating + value-flow (pass-through) tables + panic-obligation discharge + error-discipline census on go/ssa",
			Explanation: "Rules are evaluated on the SSA of package agent/shimagent (server type and fields resolved by type). Gating uses branch literals that hold on every path; pass-through compares canonical origin expressions of call arguments and results; error discipline enumerates every call returning an error and follows the value to a return.",
			Assumptions: []string{"x/crypto agent client and ssh.ParsePublicKey/Marshal round-trip blobs", "sort.Slice passes in-range indices", "the underlying agent's own behaviour"},
			Trusted:     []string{"go/packages", "go/types", "go/ssa", "callgraph/vta", "golang.org/x/crypto/ssh/agent"},
			RuleDoc: map[string]string{
				"R4.bounds": "index/slice/assertion obligations in the shim package",
				"R4.nil":    "use-before-error-check (constructor) and json-null obligations",
			},
		},
		Run: runC10,
	})
}

func shimEntries(w *World) []*ssa.Function {
	fs := w.methodsOf(shimPkg, "Server")
	for _, n := range []string{"New", "newShimAgent"} {
		if f := w.Func(shimPkg, n); f != nil {
			fs = append(fs, f)
		}
	}
	fs = append(fs, w.methodsOf(shimPkg, "signer")...)
	fs = append(fs, w.methodsOf(shimPkg, "certificate")...)
	return fs
}

func runC10(c *Ctx) {
	w := c.w
	if w.Func(shimPkg, "New") == nil {
		c.Unresolved("R4.nil", "shimagent.New")
	}
	runPanicRules(c, "R4", shimEntries(w), 30)
}
