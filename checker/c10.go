package main

import (
	"go/token"
	"go/types"
	"strings"

	"golang.org/x/tools/go/ssa"
)

func init() {
	register(&property{
		ID: "C10",
		Meta: propMeta{
			Level:       "Structural necessary conditions, decided on all paths of the shim package: (R1) the hardware-certificate table is written only under the must-facts 'cast to certificate succeeded' and 'bytes.Equal(listed key blob, certificate key blob)' for a key of this activation's listing, re-adding returns nil before any effect, absence yields the key-not-found error; (R2) arguments reach the underlying agent unmodified and its results are returned unmodified (pass-through table); (R3) the framed read allocates only under the must-fact length <= bound (constant <= 16 MiB) and write refuses longer data; (R4) no result of a fallible constructor is used before its error is checked, and every index/slice/assertion in the package is discharged; (R5) every error of the underlying agent / framing helpers is returned (one reviewed idiom in remove); (R6) deletions from the certificate table are reachable only from Remove, RemoveAll and the filter's remover. Signature validity, blob identity through x/crypto and duplicate listing are not decided.",
			Technique:   "static analysis: must-fact gating + value-flow (pass-through) tables + panic-obligation discharge + error-discipline census on go/ssa",
			Explanation: "Rules are evaluated on the SSA of package agent/shimagent (server type and fields resolved by type). Gating uses branch literals that hold on every path; pass-through compares canonical origin expressions of call arguments and results; error discipline enumerates every call returning an error and follows the value to a return.",
			Assumptions: []string{"x/crypto agent client and ssh.ParsePublicKey/Marshal round-trip blobs", "sort.Slice passes in-range indices", "the underlying agent's own behaviour"},
			Trusted:     []string{"go/packages", "go/types", "go/ssa", "callgraph/vta", "golang.org/x/crypto/ssh/agent"},
			RuleDoc: map[string]string{
				"R1.hardcert":    "hardware-certificate insert gated on key-blob equality with a listed key; no-op and not-found returns",
				"R2.passthrough": "argument / result pass-through table of Add, Remove, RemoveAll, Extension, Forward",
				"R3.framing":     "framed read allocation bound and write refusal in both copies",
				"R5.errors":      "error discipline of every fallible call in the shim package",
				"R6.deletions":   "who may delete from the in-memory table; the validity test that decides pruning (imported from C07)",
				"R7.exclusive":   "raw I/O on the shared connection only under the exclusive lock (imported lock-set obligations)",
				"R4.bounds":      "index/slice/assertion obligations in the shim package",
				"R4.nil":         "use-before-error-check (constructor) and json-null obligations",
				"R8.hidden":      "with the hiding mode off no identity of the underlying agent is left out of a listing (C09's cache-write and listing rules, imported)",
			},
		},
		Run: runC10,
	})
}

func shimEntries(w *World) []*ssa.Function {
	fs := w.methodsOf(shimPkg, "Server")
	fs = append(fs, pkgFuncs(w, shimPkg)...)
	fs = append(fs, w.methodsOf(shimPkg, "signer")...)
	fs = append(fs, w.methodsOf(shimPkg, "certificate")...)
	return fs
}

func runC10(c *Ctx) {
	w := c.w
	if w.Func(shimPkg, "New") == nil {
		c.Unresolved("R4.nil", "shimagent.New")
	}
	runPanicRules(c, "R4", shimEntries(w), 30)
	m := resolveShim(w)
	for _, p := range m.problems {
		c.Unresolved("R1.hardcert", p)
	}
	if m.Server == nil || len(m.problems) > 0 {
		return
	}
	c10HardCert(c, m)
	c10PassThrough(c, m)
	c10Framing(c)
	c10Errors(c, m)
	c10Deletions(c, m)
	// a still-valid in-memory certificate is never discarded: the pruning relies on the validity test, whose nil / clamp /
	// direction obligations (C07.R5) are therefore obligations here too
	c.WithRules(map[string]string{"R5.validity": "R6.deletions"}, func() { checkValidity(c) })
	// "the identities of the underlying agent are all listed": with the hiding mode off nothing is hidden - the rules of
	// C09 about when the hidden-certificate cache is written and what the listings do with it, imported
	{
		seen, notes := map[string]bool{}, len(c.Notes)
		for k, v := range c.Analysed {
			seen[k] = v
		}
		nHid := c.WithRulesKept(map[string]string{"R1.cachewrites": "R8.hidden", "R2.listing": "R8.hidden"}, func(construct, detail string) bool {
			return !strings.HasPrefix(construct, "floor:")
		}, func() { runC09(c) })
		c.Analysed, c.Notes = seen, c.Notes[:notes]
		c.Floor("R8.hidden", nHid, 4, "cache-write and listing obligations of the hiding mode")
	}
	// relayed bytes are not interleaved with another operation's: raw I/O on the shared connection only under the
	// exclusive lock (the lock-set obligations of C11 that concern the connection)
	shimRawRelayExclusive(c, m, "R7.exclusive")
}

func c10HardCert(c *Ctx, m *shimModel) {
	w := c.w
	fn := m.Body("AddHardCert")
	if fn == nil {
		c.Unresolved("R1.hardcert", "method AddHardCert")
		return
	}
	c.Saw(fn)
	f := w.Facts(fn)
	var cast, list *ssa.Call
	for _, call := range callsIn(fn) {
		cv, ok := call.(*ssa.Call)
		if !ok {
			continue
		}
		if strings.HasSuffix(calleeName(cv), "sshutils/key.CastSSHPublicKeyToCertificate") {
			cast = cv
		}
		if cv.Call.IsInvoke() && cv.Call.Method.Name() == "List" && m.isLoadOfField(cv.Call.Value, m.fAgent) {
			list = cv
		}
	}
	if cast == nil || list == nil {
		c.Bad("R1.hardcert", "AddHardCert|cast and listing", w.FnPos(fn), "AddHardCert no longer casts the key to a certificate and lists the underlying agent's keys")
		return
	}
	c.Check(w.Expr(cast.Call.Args[0]) == "p1", "R1.hardcert", "AddHardCert|casts the offered key", w.Pos(cast.Pos()), "cast(key)", "the certificate examined is not the offered key")
	certV := extractOf(cast, 0)
	nIns := 0
	for _, a := range w.FieldAccesses(m.Owner(m.fCerts), m.fCerts) {
		if a.Fn != fn || a.Kind != "mapwrite" {
			continue
		}
		nIns++
		mu := a.Instr.(*ssa.MapUpdate)
		b := mu.Block()
		isNil, known := f.KnownNil(b, extractOf(cast, 1))
		c.Check(known && isNil, "R1.hardcert", "AddHardCert|only certificates accepted", w.Pos(mu.Pos()), "must-fact cast err == nil", "a key that is not a certificate can be inserted")
		isNil, known = f.KnownNil(b, extractOf(list, 1))
		c.Check(known && isNil, "R1.hardcert", "AddHardCert|listing succeeded", w.Pos(mu.Pos()), "must-fact agent.List() err == nil", "insert without a successful listing of the underlying agent")
		// bytes.Equal(agentKey.Marshal(), cert.Key.Marshal()) == true with agentKey ranging over this listing
		okEq := f.Any(b, func(l Lit) bool {
			xa, ya, ok := bytesEqualLit(l)
			if !ok {
				return false
			}
			x, y := w.Expr(xa), w.Expr(ya)
			listed := "Agent).List>(p0." + m.fAgent + ")#0["
			certKey := w.Expr(certV) + ".Key)"
			return (strings.Contains(x, listed) && strings.Contains(x, "Marshal") && strings.Contains(y, certKey) && strings.Contains(y, "Marshal")) ||
				(strings.Contains(y, listed) && strings.Contains(y, "Marshal") && strings.Contains(x, certKey) && strings.Contains(x, "Marshal"))
		})
		okEq = okEq || f.Any(b, func(l Lit) bool { return l.Pol && c10ContainsKey(w, fn, l.V, extractOf(list, 0), certV) })
		c.Check(okEq, "R1.hardcert", "AddHardCert|certificate key is held by the underlying agent", w.Pos(mu.Pos()), "must-fact bytes.Equal(listedKey.Marshal(), cert.Key.Marshal())", "a hardware certificate can be accepted without the must-fact that its public key equals a key the underlying agent lists now")
		// key and value of the insert
		c.Check(strings.Contains(w.Expr(mu.Key), "Marshal>(p1)"), "R1.hardcert", "AddHardCert|table keyed by the offered blob's hash", w.Pos(mu.Pos()), "hash(key.Marshal())", "the table key is not the hash of the offered key")
		okVal := false
		if al, ok := w.canon(fn, mu.Value).(*ssa.Alloc); ok {
			for fld, vals := range w.FieldStoresDeep(fn, al) {
				if fld == "Certificate" && len(vals) == 1 && w.SameValue(fn, vals[0], certV) {
					okVal = true
				}
			}
		}
		c.Check(okVal, "R1.hardcert", "AddHardCert|stores the cast certificate", w.Pos(mu.Pos()), "&certificate{cert,...}", "what is stored is not the certificate that was checked")
	}
	c.Floor("R1.hardcert", nIns, 1, "insert into the hardware-certificate table")
	// present already -> nil before any agent effect; absent -> key-not-found
	nPresent, nAbsent := 0, 0
	for _, r := range liveReturns(fn) {
		b := r.Block()
		present := f.Any(b, func(l Lit) bool {
			ex, ok := l.V.(*ssa.Extract)
			if !ok || !l.Pol || ex.Index != 1 {
				return false
			}
			lk, ok := ex.Tuple.(*ssa.Lookup)
			return ok && m.isLoadOfField(lk.X, m.fCerts)
		})
		if present {
			nPresent++
			okNil := true
			for _, lf := range w.Leaves(r.Results[0], r) {
				if !isNilConst(lf.Val) {
					okNil = false
				}
			}
			noEffect := !InstrDominates(list, r) && !ReachableAvoiding(list, nil)(r)
			c.Check(okNil && noEffect, "R1.hardcert", "AddHardCert|re-adding is a no-op", w.Pos(r.Pos()), "returns nil before touching the agent", "adding an already present hardware certificate is not a pure no-op")
		}
		for _, lf := range w.Leaves(r.Results[0], r) {
			if ex := w.Expr(lf.Val); strings.HasPrefix(ex, "global:"+RepoMod+"/"+shimPkg+".") && InstrDominates(list, r) && !f.Any(b, func(l Lit) bool { v, ok := m.lockedLit(l); return ok && v }) {
				nAbsent++
				// reached only after the whole listing was scanned
				done := f.Any(b, func(l Lit) bool {
					bin, ok := l.V.(*ssa.BinOp)
					if !ok || bin.Op != token.LSS || l.Pol {
						return false
					}
					la := lenArg(bin.Y)
					return la != nil && w.SameValue(fn, la, extractOf(list, 0)) && isForwardRangeIndex(bin.X)
				})
				done = done || f.Any(b, func(l Lit) bool { return !l.Pol && c10ContainsKey(w, fn, l.V, extractOf(list, 0), certV) })
				c.Check(done, "R1.hardcert", "AddHardCert|key-not-found only after the whole listing was scanned", w.Pos(r.Pos()), "range over the listing exhausted", "key-not-found can be returned before every listed key was compared")
			}
		}
	}
	hardCertHeld(c, m, fn, "R1.hardcert")
	c.Floor("R1.hardcert", nPresent, 1, "already-present return")
	c.Floor("R1.hardcert", nAbsent, 1, "key-not-found return")
}

// hardCertHeld: AddHardCert reports success only when the certificate is already in the in-memory table or was
// inserted on this path (otherwise a "registered" hardware certificate is neither listed nor usable).
func hardCertHeld(c *Ctx, m *shimModel, fn *ssa.Function, rule string) {
	w := c.w
	f := w.Facts(fn)
	// success means: already present, or inserted on this path
	var inserts []ssa.Instruction
	for _, a := range w.FieldAccesses(m.Owner(m.fCerts), m.fCerts) {
		if a.Fn == fn && a.Kind == "mapwrite" {
			inserts = append(inserts, a.Instr)
		}
	}
	for _, r := range w.MayBeNilReturns(fn) {
		if fn.Recover != nil && r.Block() == fn.Recover {
			continue
		}
		present := f.Any(r.Block(), func(l Lit) bool {
			ex, ok := l.V.(*ssa.Extract)
			if !ok || !l.Pol || ex.Index != 1 {
				return false
			}
			lk, ok := ex.Tuple.(*ssa.Lookup)
			return ok && m.isLoadOfField(lk.X, m.fCerts)
		})
		inserted := false
		for _, in := range inserts {
			if InstrDominates(in, r) {
				inserted = true
			}
		}
		c.Check(present || inserted, rule, "AddHardCert|success means held", w.Pos(r.Pos()), "already present or inserted on this path", "AddHardCert can report success although the certificate is neither already held nor inserted: it will not be listed or usable")
	}
}

type passRow struct {
	method string
	callee string   // method invoked on the underlying agent
	args   []string // canonical expressions of the arguments
}

func c10PassThrough(c *Ctx, m *shimModel) {
	w := c.w
	rows := []passRow{
		{"Add", "Add", []string{"p1"}},
		{"RemoveAll", "RemoveAll", nil},
		{"Extension", "Extension", []string{"p1", "p2"}},
	}
	for _, row := range rows {
		fn := m.Methods[row.method]
		if fn == nil {
			c.Unresolved("R2.passthrough", "method "+row.method)
			continue
		}
		c.Saw(fn)
		var call *ssa.Call
		for _, cv := range invokeOf(fn, row.callee) {
			if m.isLoadOfField(cv.Call.Value, m.fAgent) {
				call = cv
			}
		}
		if call == nil {
			c.Bad("R2.passthrough", row.method+"|forwards to the underlying agent", w.FnPos(fn), row.method+" no longer calls the underlying agent's "+row.callee)
			continue
		}
		okArgs := len(call.Call.Args) == len(row.args)
		for i := range row.args {
			if okArgs && w.Expr(call.Call.Args[i]) != row.args[i] {
				okArgs = false
			}
		}
		c.Check(okArgs, "R2.passthrough", row.method+"|arguments unchanged", w.Pos(call.Pos()), "parameters handed over as received", "the arguments handed to the underlying agent are not the caller's: "+exprList(w, call.Call.Args))
		// every return after the call returns its results
		okRet := true
		for _, r := range liveReturns(fn) {
			if !InstrDominates(call, r) {
				continue
			}
			for i, rv := range r.Results {
				for _, lf := range w.Leaves(rv, r) {
					want := ssa.Value(call)
					if len(r.Results) > 1 {
						want = extractOf(call, i)
					}
					if lf.Val != want {
						okRet = false
					}
				}
			}
		}
		c.Check(okRet, "R2.passthrough", row.method+"|result unchanged", w.Pos(call.Pos()), "the underlying agent's result is returned as is", "the result of the underlying agent is altered or replaced")
	}
	// Remove -> remove(key) -> agent.Remove(key)
	if rm := m.Methods["Remove"]; rm != nil {
		c.Saw(rm)
		ok := false
		for _, call := range callsIn(rm) {
			if cv, isCall := call.(*ssa.Call); isCall {
				if callee := cv.Call.StaticCallee(); callee != nil && recvNamed(callee) == m.Server && len(cv.Call.Args) == 2 && w.Expr(cv.Call.Args[1]) == "p1" && w.Expr(cv.Call.Args[0]) == "p0" {
					for _, inner := range invokeOf(callee, "Remove") {
						if m.isLoadOfField(inner.Call.Value, m.fAgent) && w.Expr(inner.Call.Args[0]) == "p1" {
							ok = true
						}
					}
				}
			}
		}
		c.Check(ok, "R2.passthrough", "Remove|key reaches the underlying agent unchanged", w.FnPos(rm), "Remove(key) -> remove(key) -> agent.Remove(key)", "the key removed from the underlying agent is not the caller's key")
	}
	// Forward: write(conn, req) then return read(conn)
	if fw := m.Methods["Forward"]; fw != nil {
		c.Saw(fw)
		var wr, rd *ssa.Call
		for _, call := range callsIn(fw) {
			cv, ok := call.(*ssa.Call)
			if !ok || cv.Call.StaticCallee() == nil {
				continue
			}
			for _, a := range cv.Call.Args {
				if m.isLoadOfField(strip(a), m.fConn) {
					if len(cv.Call.Args) == 2 {
						wr = cv
					} else {
						rd = cv
					}
				}
			}
		}
		if wr == nil || rd == nil {
			c.Bad("R2.passthrough", "Forward|raw exchange on the connection", w.FnPos(fw), "Forward no longer writes the request to and reads the reply from the upstream connection")
		} else {
			c.Check(w.Expr(wr.Call.Args[1]) == "p1", "R2.passthrough", "Forward|request relayed byte for byte", w.Pos(wr.Pos()), "write(conn, req)", "the bytes written upstream are not the caller's request: "+w.Short(wr.Call.Args[1]))
			f := w.Facts(fw)
			isNil, known := f.KnownNil(rd.Block(), wr)
			c.Check(known && isNil && InstrDominates(wr, rd), "R2.passthrough", "Forward|reply read after a successful write", w.Pos(rd.Pos()), "read dominated by write with must-fact err == nil", "the reply is read although the request was not written")
			okRet := true
			for _, r := range liveReturns(fw) {
				if !InstrDominates(rd, r) {
					continue
				}
				for i, rv := range r.Results {
					for _, lf := range w.Leaves(rv, r) {
						if lf.Val != extractOf(rd, i) {
							okRet = false
						}
					}
				}
			}
			c.Check(okRet, "R2.passthrough", "Forward|reply returned unchanged", w.Pos(rd.Pos()), "return read(conn)", "the reply handed back is not what was read from the connection")
		}
	}
}

func exprList(w *World, vs []ssa.Value) string {
	var p []string
	for _, v := range vs {
		p = append(p, w.Short(v))
	}
	return strings.Join(p, ", ")
}

// c10Framing: both copies of the framed read allocate only under length <= bound; write refuses longer data.
func c10Framing(c *Ctx) { framingRules(c, "R3.framing", []string{shimPkg}) }

func framingRules(c *Ctx, rule string, pkgs []string) {
	w := c.w
	bounds := map[string]int64{}
	for _, pkg := range pkgs {
		rd, wr := framingBodies(w, pkg)
		if rd == nil || wr == nil {
			c.Unresolved(rule, "framed read/write helpers of "+pkg)
			continue
		}
		c.Saw(rd)
		c.Saw(wr)
		f := w.Facts(rd)
		nAlloc := 0
		for _, b := range rd.Blocks {
			for _, ins := range b.Instrs {
				ms, ok := ins.(*ssa.MakeSlice)
				if !ok {
					continue
				}
				if _, isConst := intConst(ms.Len); isConst {
					continue
				}
				nAlloc++
				// the length (through conversions) has the fact not (l > C)
				base := ms.Len
				for {
					if cv, ok := base.(*ssa.Convert); ok {
						base = cv.X
						continue
					}
					break
				}
				bound := lengthBoundAt(w, rd, f, b, ms, base)
				c.Check(bound >= 0 && bound <= 16<<20, rule, pkg+".read|allocation bounded", w.Pos(ms.Pos()), "make([]byte, l) under must-fact l <= "+itoa(int(bound)), "the frame buffer is allocated without the must-fact 'declared length <= 16 MiB' (bound found: "+itoa(int(bound))+")")
				bounds[pkg] = bound
				// length comes from the 4-byte big-endian prefix
				c.Check(strings.Contains(w.Expr(base), "Uint32"), rule, pkg+".read|length is the frame prefix", w.Pos(ms.Pos()), "binary.BigEndian.Uint32(prefix)", "the allocated length is not the decoded frame prefix")
			}
		}
		c.Floor(rule, nAlloc, 1, "frame buffer allocation in "+pkg+".read")
		nRF := 0
		for _, call := range callsIn(rd) {
			if !fullRead(w, call) {
				continue
			}
			nRF++
			c.Check(w.Expr(call.Common().Args[0]) == "p0", rule, pkg+".read|reads exactly from the connection", w.Pos(call.Pos()), "io.ReadFull(c, ...)", "the frame is read through something other than the connection itself (a per-call buffered reader loses the bytes it read ahead): "+w.Short(call.Common().Args[0]))
		}
		c.Check(nRF == 2, rule, pkg+".read|prefix and body read with io.ReadFull", w.FnPos(rd), "two io.ReadFull calls", "expected two io.ReadFull calls (length prefix, body), found "+itoa(nRF))
		for _, call := range callsIn(rd) {
			n := calleeName(call)
			if fullRead(w, call) || n == "fmt.Errorf" || n == "errors.New" || strings.HasPrefix(n, "builtin:") || strings.HasPrefix(n, "(encoding/binary.") {
				continue
			}
			for _, a := range call.Common().Args {
				if w.Expr(a) == "p0" {
					c.Bad(rule, pkg+".read|connection handed to "+shortName(n), w.Pos(call.Pos()), "the connection is handed to "+shortName(n)+" inside the framed read: bytes beyond the frame may be consumed")
				}
			}
		}
		// write: every Write call has the fact not (len(data) > C)
		wf := w.Facts(wr)
		nW := 0
		for _, call := range invokeOf(wr, "Write") {
			nW++
			ok := wf.Any(call.Block(), func(l Lit) bool {
				bin, ok := l.V.(*ssa.BinOp)
				if !ok || l.Pol || bin.Op != token.GTR {
					return false
				}
				la := lenArg(bin.X)
				k, isK := intConst(bin.Y)
				if la != nil && w.Expr(la) == "p1" && isK && k <= 16<<20 {
					return true
				}
				// the same test made by a size-check helper on its parameter, handed len(data) by the writer
				numBase := func(v ssa.Value) ssa.Value {
					for {
						cv, ok := strip(v).(*ssa.Convert)
						if !ok {
							return strip(v)
						}
						v = cv.X
					}
				}
				if p, isP := numBase(bin.X).(*ssa.Parameter); isP && p.Parent() != wr && isK && k <= 16<<20 {
					for _, site := range w.sitesIn(wr, p.Parent()) {
						a := site.Common().Args
						if paramIndex(p) < len(a) && site.Parent() == wr && InstrDominates(site.(ssa.Instruction), call) {
							if la2 := lenArg(numBase(a[paramIndex(p)])); la2 != nil && w.Expr(la2) == "p1" {
								return true
							}
						}
					}
				}
				return false
			})
			c.Check(ok, rule, pkg+".write|refuses oversized data", w.Pos(call.Pos()), "must-fact not (len(data) > bound)", "data longer than the bound can be written (the 4-byte length would wrap or the peer would refuse it)")
		}
		c.Floor(rule, nW, 2, "Write calls in "+pkg+".write")
		frameWriteRule(c, rule, pkg)
	}
	// the sibling copy's constant (the client side of the same wire) agrees
	if len(pkgs) == 1 {
		other := yubiPkg
		if pkgs[0] == yubiPkg {
			other = shimPkg
		}
		ord, _ := framingBodies(w, other)
		mine, _ := framingBodies(w, pkgs[0])
		ba, bb := frameBound(w, mine), frameBound(w, ord)
		c.Check(ba >= 0 && ba == bb, rule, "read|both copies of the framing use the same bound", "-", "equal bounds", "the two framed readers disagree on the maximum frame size: "+itoa(int(ba))+" vs "+itoa(int(bb)))
	}
}

// c10Errors: every error produced by the underlying agent or the framing / pruning helpers is examined and,
// when non-nil, ends the operation with a non-nil error.
func c10Errors(c *Ctx, m *shimModel) {
	w := c.w
	n := 0
	for _, fn := range w.RepoFuncs() {
		root := fn
		for root.Parent() != nil {
			root = root.Parent()
		}
		if root.Pkg == nil || root.Pkg != w.Pkg(shimPkg) {
			continue
		}
		f := w.Facts(fn)
		for _, call := range callsIn(fn) {
			cm := call.Common()
			interesting := ""
			if cm.IsInvoke() && m.isLoadOfField(cm.Value, m.fAgent) {
				interesting = "agent." + cm.Method.Name()
			} else if callee := cm.StaticCallee(); callee != nil && w.InRepo(callee) && callee.Pkg == root.Pkg && errorResultIndex(callee) >= 0 {
				interesting = shortFn(callee)
			} else if cm.IsInvoke() && cm.Method.Name() == "remove" {
				interesting = "remover.remove"
			}
			if interesting == "" {
				continue
			}
			if _, isDefer := call.(*ssa.Defer); isDefer {
				continue
			}
			u, has := ErrUseOf(call)
			if !has {
				continue
			}
			n++
			key := shortFn(fn) + "|" + interesting
			if u.Dropped {
				// accumulated with multierr.Append?
				acc := false
				if u.Err != nil {
					for _, ins := range valueUsers(u.Err) {
						if cc, ok := ins.(*ssa.Call); ok && strings.HasSuffix(calleeName(cc), "multierr.Append") {
							acc = true
						}
					}
				}
				if !acc && u.Err != nil {
					// handed to a helper of the package that gives a non-nil error back as its own result; that call's result
					// is subject to this rule in turn
					if h := errHandedBack(w, u.Err); h != nil {
						c.Ok("R5.errors", key+" error examined", w.Pos(call.Pos()), "handed to "+shortFn(h)+", which returns it when non-nil")
						continue
					}
				}
				if !acc {
					// cleanup on a path that already carries a non-nil error, which is what gets returned
					onErrPath := f.Any(call.Block(), func(l Lit) bool { _, isNil, ok := nilTest(l); return ok && !isNil && isErrorType(lhsType(l)) })
					if onErrPath && (strings.HasSuffix(interesting, ".Close") || strings.HasSuffix(interesting, ".close")) {
						c.Ok("R5.errors", key+" cleanup on an error path", w.Pos(call.Pos()), "Close() while another error is being returned")
						continue
					}
				}
				c.Check(acc, "R5.errors", key+" error examined", w.Pos(call.Pos()), "accumulated with multierr.Append (returned when non-nil)", "the error of "+interesting+" is dropped")
				continue
			}
			if u.Direct && !u.Tested {
				c.Ok("R5.errors", key+" error returned", w.Pos(call.Pos()), "returned directly")
				continue
			}
			// tested: the non-nil edge must end in non-nil error returns
			ok := true
			idx := errorResultIndex(fn)
			for _, b := range fn.Blocks {
				if nn, k := f.KnownNil(b, u.Err); k && !nn {
					if !leadsOnlyToReturns(b, func(x *ssa.BasicBlock) bool { n2, k2 := f.KnownNil(x, u.Err); return k2 && !n2 }) {
						ok = false
					}
				}
			}
			for _, r := range liveReturns(fn) {
				if nn, k := f.KnownNil(r.Block(), u.Err); k && !nn {
					if idx < 0 {
						ok = false
						continue
					}
					for _, lf := range w.Leaves(r.Results[idx], r) {
						if !w.NonNil(lf.Val, lf.Facts) {
							ok = false
						}
					}
				}
			}
			if !ok {
				if why, reviewed := c10ErrIdioms[key]; reviewed {
					c.Ok("R5.errors", key+" error handled (reviewed idiom)", w.Pos(call.Pos()), why)
					continue
				}
			}
			c.Check(ok, "R5.errors", key+" error ends the operation", w.Pos(call.Pos()), "the non-nil edge reaches only non-nil error returns", "a failure of "+interesting+" does not surface as an error of the operation")
		}
	}
	c.Floor("R5.errors", n, 15, "error-returning calls in the shim package")
}

// reviewed exceptions, one line of reason each
var c10ErrIdioms = map[string]string{
	"(*shimagent.Server).remove|agent.Remove":                                "when the key was an in-memory certificate the underlying agent answers 'not found'; the error is returned unless the in-memory entry was removed (err != nil && !removed)",
	"(*shimagent.Server).List|sshutils/cert.Label":                           "a certificate without a derivable label is listed with its comment only (label error is a display fallback)",
	"(*shimagent.Server).AddHardCert|sshutils/cert.Label":                    "a certificate without a derivable label is stored with the caller's suffix only (display fallback)",
	"(*shimagent.Server).List|sshutils/key.CastSSHPublicKeyToCertificate":    "a cast error means a plain key: listed as is",
	"(*shimagent.Server).Signers|sshutils/key.CastSSHPublicKeyToCertificate": "a cast error means a plain key: listed as is",
}

func c10Deletions(c *Ctx, m *shimModel) {
	w := c.w
	ctor := shimConstructor(w, m)
	var remove *ssa.Function
	n := 0
	for _, a := range w.FieldAccesses(m.Owner(m.fCerts), m.fCerts) {
		switch a.Kind {
		case "mapdelete":
			n++
			remove = a.Fn
			c.Check(a.Fn.Object() != nil && !a.Fn.Object().Exported() && recvNamed(a.Fn) == m.Server, "R6.deletions", "delete from the table in "+shortFn(a.Fn), w.Pos(a.Instr.Pos()), "the removal helper", "an in-memory certificate is deleted outside the removal helper")
		case "write":
			n++
			ok := a.Fn == m.Methods["RemoveAll"] || a.Fn == ctor
			if !ok {
				// a helper whose only callers are RemoveAll and the constructor
				n := 0
				ok = true
				for _, fn := range w.RepoFuncs() {
					for _, call := range callsIn(fn) {
						if call.Common().StaticCallee() == a.Fn {
							n++
							if fn != m.Methods["RemoveAll"] && fn != ctor {
								ok = false
							}
						}
					}
				}
				ok = ok && n > 0
			}
			c.Check(ok, "R6.deletions", "table replaced in "+shortFn(a.Fn), w.Pos(a.Instr.Pos()), "RemoveAll / constructor", "the in-memory certificate table is replaced outside RemoveAll and the constructor")
		}
	}
	c.Floor("R6.deletions", n, 2, "deletion / replacement sites of the table")
	if remove != nil {
		// the removal helper drops the removed key's own entry and no other: every delete from the table on its tree is
		// keyed by hash(key.Marshal()) of its parameter (a still-valid certificate over that key is not the key's entry)
		for _, a := range w.FieldAccesses(m.Owner(m.fCerts), m.fCerts) {
			if a.Kind != "mapdelete" || (a.Home() != remove && !w.inTree(remove, a.Home())) {
				continue
			}
			call, isCall := a.Instr.(ssa.CallInstruction)
			okKey := false
			if isCall && len(call.Common().Args) == 2 {
				w.WithAccess(remove, a, func(*Facts) {
					ke := w.ExprIn(remove, call.Common().Args[1])
					okKey = strings.HasSuffix(ke, "Marshal>(p1))") && strings.HasPrefix(ke, "call<")
				})
			}
			c.Check(okKey, "R6.deletions", "removal helper|deletes only the removed key's entry", w.Pos(a.Instr.Pos()), "delete(table, hash(key.Marshal()))", "the removal helper deletes an in-memory entry that is not keyed by the removed key's own hash: a still-valid certificate is discarded (and stays discarded when the underlying agent then refuses the removal)")
		}
		// removing makes it disappear: every successful return of the removal helper was preceded by the deletion of
		// the key's in-memory entry, or by the failed-lookup edge of a test that the entry is absent
		through := map[ssa.Instruction]bool{}
		for _, a := range w.FieldAccesses(m.Owner(m.fCerts), m.fCerts) {
			if a.Fn != remove {
				continue
			}
			switch a.Kind {
			case "mapdelete":
				through[a.Instr] = true
			case "mapread":
				// comma-ok lookup: the successor taken when ok is false
				lk, isLk := a.Instr.(*ssa.Lookup)
				if !isLk || !lk.CommaOk {
					continue
				}
				okv := extractOfV(lk, 1)
				for _, b := range remove.Blocks {
					if len(b.Instrs) == 0 {
						continue
					}
					if ifi, isIf := b.Instrs[len(b.Instrs)-1].(*ssa.If); isIf && okv != nil {
						cond := ifi.Cond
						neg := false
						if u, isNot := cond.(*ssa.UnOp); isNot && u.Op == token.NOT {
							cond, neg = u.X, true
						}
						if cond == okv {
							absent := b.Succs[1]
							if neg {
								absent = b.Succs[0]
							}
							if len(absent.Instrs) > 0 {
								through[absent.Instrs[0]] = true
							}
						}
					}
				}
			}
		}
		for _, r := range w.MayBeNilReturns(remove) {
			if remove.Recover != nil && r.Block() == remove.Recover {
				continue
			}
			c.Check(len(through) > 0 && MustPassFromEntry(remove, r, through), "R6.deletions", "removal helper|success means the in-memory entry is gone", w.Pos(r.Pos()), "every path to this return deletes the entry or found it absent", "the removal helper can report success on a path that neither deleted the key's in-memory entry nor found it absent: a removed hardware certificate stays listed")
		}
		// static callers of the removal helper
		for _, fn := range w.RepoFuncs() {
			for _, call := range callsIn(fn) {
				if call.Common().StaticCallee() == remove {
					root := fn
					for root.Parent() != nil {
						root = root.Parent()
					}
					ok := fn == m.Methods["Remove"] || (fn.Parent() != nil && root.Signature.Results().Len() == 3)
					if !ok && fn.Signature.Recv() != nil {
						// a method of a remover type whose values are built by the pruning function only
						if T := recvNamed(fn); T != nil && T != m.Server {
							nAlloc, okAlloc := 0, true
							for _, g := range w.RepoFuncs() {
								for _, a := range allocsOf(g, T.Obj().Pkg().Path()+"."+T.Obj().Name()) {
									nAlloc++
									top := a.Parent()
									for top.Parent() != nil {
										top = top.Parent()
									}
									if top.Signature.Results().Len() != 3 || recvNamed(top) != m.Server {
										okAlloc = false
									}
								}
							}
							ok = nAlloc >= 1 && okAlloc
						}
					}
					c.Check(ok, "R6.deletions", "caller of the removal helper: "+shortFn(fn), w.Pos(call.Pos()), "Remove or the pruning function's remover", "the removal helper is called from an unexpected place: a still-valid in-memory certificate can be dropped on an unrelated path")
				}
			}
		}
	}
}

// errHandedBack: every use of error value ev is as an argument of one statically called repository helper whose
// returns, when that parameter is non-nil, yield a non-nil error (the parameter itself, or a certainly non-nil
// value). Returns the helper.
func errHandedBack(w *World, ev ssa.Value) *ssa.Function {
	var h *ssa.Function
	var site *ssa.Call
	for _, ins := range valueUsers(ev) {
		if _, isDbg := ins.(*ssa.DebugRef); isDbg {
			continue
		}
		cc, ok := ins.(*ssa.Call)
		if !ok || site != nil {
			return nil
		}
		site = cc
	}
	if site == nil {
		return nil
	}
	h = site.Call.StaticCallee()
	if h == nil || !w.InRepo(h) || h.Blocks == nil || errorResultIndex(h) < 0 {
		return nil
	}
	pi := -1
	for i, a := range site.Call.Args {
		if a == ev {
			if pi >= 0 {
				return nil
			}
			pi = i
		}
	}
	if pi < 0 || pi >= len(h.Params) {
		return nil
	}
	p := h.Params[pi]
	// the parameter is only tested against nil and returned (not overwritten: parameters are SSA values)
	f := w.factsOf(h)
	idx := errorResultIndex(h)
	for _, r := range liveReturns(h) {
		if isNil, known := f.KnownNil(r.Block(), p); known && isNil {
			continue
		}
		for _, lf := range w.leaves(r.Results[idx], r, false) {
			if throughCell(strip(lf.Val)) == ssa.Value(p) {
				continue
			}
			if isNil, known := f.knownNilIn(lf.Facts, p); known && isNil {
				continue
			}
			if !w.NonNil(lf.Val, lf.Facts) {
				return nil
			}
		}
	}
	return h
}

// c10ContainsKey: v is slices.ContainsFunc(<the listing>, func(k) bool { return bytes.Equal(k.Marshal(), cert.Key.Marshal()) })
// (either argument order) - "some listed key has the certificate's public key", decided over the whole listing.
func c10ContainsKey(w *World, fn *ssa.Function, v ssa.Value, listing, certV ssa.Value) bool {
	cv, ok := throughCell(strip(v)).(*ssa.Call)
	if !ok || !strings.HasPrefix(calleeName(cv), "slices.ContainsFunc") || len(cv.Call.Args) != 2 {
		return false
	}
	if !w.SameValue(fn, cv.Call.Args[0], listing) {
		return false
	}
	mc, ok := strip(cv.Call.Args[1]).(*ssa.MakeClosure)
	if !ok {
		return false
	}
	clo, _ := mc.Fn.(*ssa.Function)
	if clo == nil || len(clo.Params) != 1 {
		return false
	}
	rets := liveReturns(clo)
	if len(rets) != 1 || len(rets[0].Results) != 1 {
		return false
	}
	eq, ok := throughCell(strip(rets[0].Results[0])).(*ssa.Call)
	if ok && calleeName(eq) != "bytes.Equal" && len(eq.Call.Args) == 2 {
		// a two-key comparison helper of the repository: sameKey(x, y) = bytes.Equal(x.Marshal(), y.Marshal())
		if h := eq.Call.StaticCallee(); h != nil && w.InRepo(h) && len(h.Params) == 2 && len(h.Blocks) > 0 {
			if hr := liveReturns(h); len(hr) == 1 && len(hr[0].Results) == 1 {
				if he, isCall := throughCell(strip(hr[0].Results[0])).(*ssa.Call); isCall && calleeName(he) == "bytes.Equal" && len(he.Call.Args) == 2 {
					marshalOfParam := func(a ssa.Value) int {
						mcall, ok := throughCell(strip(a)).(*ssa.Call)
						if !ok || !mcall.Call.IsInvoke() || mcall.Call.Method.Name() != "Marshal" {
							return -1
						}
						for i, p := range h.Params {
							if throughCell(strip(mcall.Call.Value)) == ssa.Value(p) {
								return i
							}
						}
						return -1
					}
					i0, i1 := marshalOfParam(he.Call.Args[0]), marshalOfParam(he.Call.Args[1])
					if i0 >= 0 && i1 >= 0 && i0 != i1 {
						x, y := eq.Call.Args[0], eq.Call.Args[1]
						isElemV := func(v ssa.Value) bool { return throughCell(strip(v)) == ssa.Value(clo.Params[0]) }
						isCertKeyV := func(v ssa.Value) bool { return strings.HasSuffix(w.Expr(strip(v)), w.Expr(certV)+".Key") }
						return (isElemV(x) && isCertKeyV(y)) || (isElemV(y) && isCertKeyV(x))
					}
				}
			}
		}
	}
	if !ok || calleeName(eq) != "bytes.Equal" {
		return false
	}
	isMarshalOf := func(a ssa.Value, want func(recv ssa.Value) bool) bool {
		mcall, ok := throughCell(strip(a)).(*ssa.Call)
		if !ok || !mcall.Call.IsInvoke() && mcall.Call.StaticCallee() == nil {
			return false
		}
		name := ""
		var recv ssa.Value
		if mcall.Call.IsInvoke() {
			name, recv = mcall.Call.Method.Name(), mcall.Call.Value
		} else if len(mcall.Call.Args) > 0 {
			name, recv = mcall.Call.StaticCallee().Name(), mcall.Call.Args[0]
		}
		return name == "Marshal" && recv != nil && want(recv)
	}
	isElem := func(recv ssa.Value) bool { return throughCell(strip(recv)) == ssa.Value(clo.Params[0]) }
	isCertKey := func(recv ssa.Value) bool {
		return strings.HasSuffix(w.Expr(recv), w.Expr(certV)+".Key")
	}
	a, b := eq.Call.Args[0], eq.Call.Args[1]
	return (isMarshalOf(a, isElem) && isMarshalOf(b, isCertKey)) || (isMarshalOf(b, isElem) && isMarshalOf(a, isCertKey))
}

// fullRead: the call reads exactly len(buf) bytes or fails - io.ReadFull(r, buf), or its definition
// io.ReadAtLeast(r, buf, len(buf)).
func fullRead(w *World, call ssa.CallInstruction) bool {
	switch calleeName(call) {
	case "io.ReadFull":
		return true
	case "io.ReadAtLeast":
		a := call.Common().Args
		if len(a) != 3 {
			return false
		}
		if la := lenArg(a[2]); la != nil && w.Expr(la) == w.Expr(a[1]) {
			return true
		}
		// len of an array is a constant: the buffer is that whole array
		if k, isK := intConst(a[2]); isK {
			if sl, ok := strip(a[1]).(*ssa.Slice); ok && sl.Low == nil && sl.High == nil {
				if pt, ok := sl.X.Type().Underlying().(*types.Pointer); ok {
					if at, ok := pt.Elem().Underlying().(*types.Array); ok && at.Len() == k {
						return true
					}
				}
			}
		}
	}
	return false
}

// bytesEqualLit: the literal states that two byte strings are equal - bytes.Equal(x, y) holds, or
// bytes.Compare(x, y) == 0 does.
func bytesEqualLit(l Lit) (x, y ssa.Value, ok bool) {
	switch v := l.V.(type) {
	case *ssa.Call:
		if l.Pol && calleeName(v) == "bytes.Equal" && len(v.Call.Args) == 2 {
			return v.Call.Args[0], v.Call.Args[1], true
		}
	case *ssa.BinOp:
		if (v.Op == token.EQL && l.Pol) || (v.Op == token.NEQ && !l.Pol) {
			a, b := v.X, v.Y
			if _, isK := intConst(a); isK {
				a, b = b, a
			}
			if k, isK := intConst(b); isK && k == 0 {
				if cv, isCall := strip(a).(*ssa.Call); isCall && calleeName(cv) == "bytes.Compare" && len(cv.Call.Args) == 2 {
					return cv.Call.Args[0], cv.Call.Args[1], true
				}
			}
		}
	}
	return nil, nil, false
}
