package main

import (
	"bufio"
	"encoding/json"
	"fmt"
	"go/ast"
	"os"
	"os/exec"
	"path/filepath"
	"regexp"
	"runtime"
	"sort"
	"strings"
)

// Thorough tier = quick tier plus:
//   1. the same rules on the other build configurations the repository supports for the packages of the
//      property (GOOS=windows / darwin with CGO_ENABLED=0 for ./agent/...; GOARCH=386 for everything);
//   2. an independent enumerator for bounds obligations: the compiler's own list of bounds checks it could
//      not eliminate (-d=ssa/check_bce) - every compiler site inside an analysed function must be one of the
//      checker's obligations (a site the checker did not even enumerate is a checker defect and fails);
//   3. the result of the mutant / neutral controls of the property, when run.sh produced them
//      (evidence/selftest_<ID>.json): reported in the evidence, never as a VIOLATION (the tree is not at fault).

// crossOS lists the properties whose anchors live in ./agent/... (the only part of the tree that builds for
// other operating systems without cgo).
var crossOS = map[string]bool{"C07": true, "C08": true, "C09": true, "C10": true, "C11": true, "C12": true, "C13": true, "C20": true}

// bceProps: properties carrying panic obligations, with the packages to ask the compiler about.
var bceProps = map[string][]string{
	"C05": {"./keyid"},
	"C10": {"./agent/shimagent"},
	"C12": {"./agent/yubiagent", "./agent/shimagent", "./agent/utils", "./sshutils/...", "./keyid"},
	"C13": {"./agent/yubiagent"},
	"C14": {"./csr/...", "./message", "./sshutils/version", "./common"},
	"C15": {"./message"},
	"C16": {"./attestation/yubiattest", "./agent/utils"},
	"C20": {"./agent/shimagent"},
}

func init() {
	thoroughHooks = append(thoroughHooks, thoroughConfigs, thoroughBCE, thoroughControls)
}

func thoroughConfigs(c *Ctx, p *property, repo string) {
	type cfg struct {
		name     string
		env      []string
		patterns []string
	}
	var cfgs []cfg
	if crossOS[p.ID] {
		cfgs = append(cfgs,
			cfg{"windows/amd64", []string{"GOOS=windows", "GOARCH=amd64", "CGO_ENABLED=0"}, []string{"./agent/..."}},
			cfg{"darwin/arm64", []string{"GOOS=darwin", "GOARCH=arm64", "CGO_ENABLED=0"}, []string{"./agent/..."}},
		)
	}
	cfgs = append(cfgs, cfg{"linux/386", []string{"GOOS=linux", "GOARCH=386", "CGO_ENABLED=0"}, []string{"./agent/...", "./attestation/...", "./common/...", "./config/...", "./crypki/...", "./csr/...", "./gensign/...", "./internal/...", "./keyid/...", "./message/...", "./sshutils/...", "./tlsutils/...", "./cmd/gensign/..."}})
	var done []string
	for _, cf := range cfgs {
		w2, err := Load(repo, cf.patterns, cf.env)
		if err != nil {
			c.Und("G1.configs", "load "+cf.name, "-", "cannot load the build configuration "+cf.name+": "+firstLine(err.Error()))
			continue
		}
		w2.GOOS = cf.name
		sub := newCtx(w2, p.ID, c.Tier)
		func() {
			defer func() {
				if r := recover(); r != nil {
					c.Und("G1.configs", "analysis "+cf.name, "-", fmt.Sprintf("analysis panic under %s: %v", cf.name, r))
				}
			}()
			p.Run(sub)
		}()
		nBad := 0
		for _, o := range sub.Obs {
			o.Key += " @" + cf.name
			o.Rule = o.Rule
			if o.Status != Discharged {
				nBad++
			}
			c.Obs = append(c.Obs, o)
			c.rules[o.Rule]++
		}
		for k := range sub.Analysed {
			c.Analysed[k] = true
		}
		done = append(done, fmt.Sprintf("%s: %d obligations, %d not discharged", cf.name, len(sub.Obs), nBad))
		w2 = nil
		runtime.GC()
	}
	c.Extra["build_configurations"] = append([]string{"linux/amd64 (primary)"}, done...)
}

func firstLine(s string) string {
	if i := strings.Index(s, "\n"); i >= 0 {
		return s[:i]
	}
	return s
}

var bceLine = regexp.MustCompile(`^(.+\.go):(\d+):(\d+): Found (IsInBounds|IsSliceInBounds)`)

func thoroughBCE(c *Ctx, p *property, repo string) {
	pkgs := bceProps[p.ID]
	if len(pkgs) == 0 {
		return
	}
	args := append([]string{"build", "-gcflags=-d=ssa/check_bce/debug=1"}, pkgs...)
	cmd := exec.Command("go", args...)
	cmd.Dir = repo
	cmd.Env = cleanEnv()
	out, err := cmd.CombinedOutput()
	if err != nil && !strings.Contains(string(out), "Found Is") {
		c.Und("G2.bce", "compiler bounds-check report", "-", "cannot obtain the compiler's bounds-check list: "+firstLine(string(out)))
		return
	}
	// our obligations by file:line, and the line ranges of analysed functions
	ours := map[string]bool{}
	for _, o := range c.Obs {
		if strings.Contains(o.Rule, "bounds") || strings.Contains(o.Rule, "index") || strings.Contains(o.Rule, "slots") {
			ours[o.Pos] = true
		}
	}
	type span struct {
		file     string
		from, to int
	}
	var spans []span
	for _, fn := range c.w.RepoFuncs() {
		if !c.BoundsFns[fn.String()] {
			continue
		}
		if fn.Syntax() == nil {
			continue
		}
		a, b := c.w.Fset.Position(fn.Syntax().Pos()), c.w.Fset.Position(fn.Syntax().End())
		rel, _ := filepath.Rel(c.w.Dir, a.Filename)
		spans = append(spans, span{rel, a.Line, b.Line})
	}
	n, matched, inlined := 0, 0, 0
	var missing []string
	sc := bufio.NewScanner(strings.NewReader(string(out)))
	seen := map[string]bool{}
	for sc.Scan() {
		m := bceLine.FindStringSubmatch(sc.Text())
		if m == nil {
			continue
		}
		file := strings.TrimPrefix(m[1], "./")
		pos := file + ":" + m[2]
		if seen[pos] {
			continue
		}
		seen[pos] = true
		var line int
		fmt.Sscan(m[2], &line)
		inside := false
		for _, s := range spans {
			if s.file == file && line >= s.from && line <= s.to {
				inside = true
			}
		}
		if !inside {
			continue
		}
		if !c.w.hasIndexingOnLine(file, line) {
			// a bounds check of an inlined (standard-library) callee reported at its call site
			inlined++
			continue
		}
		n++
		if ours[pos] {
			matched++
		} else {
			missing = append(missing, pos)
		}
	}
	sort.Strings(missing)
	if len(missing) > 0 {
		c.Und("G2.bce", "compiler sites covered", "-", "the compiler could not eliminate bounds checks at sites the checker did not enumerate: "+strings.Join(missing, ", "))
	} else {
		c.add("G2.bce", "compiler sites covered", "-", Discharged, fmt.Sprintf("all %d unproven bounds-check sites the compiler reports inside the analysed functions are among the checker's obligations", n), true)
	}
	c.Extra["compiler_bce_sites"] = n
	c.Extra["compiler_bce_matched"] = matched
	c.Extra["compiler_bce_inlined_callee_sites_ignored"] = inlined
}

func thoroughControls(c *Ctx, p *property, repo string) {
	verif := os.Getenv("VERIF_DIR")
	if verif == "" {
		verif = "/verif"
	}
	b, err := os.ReadFile(filepath.Join(verif, "evidence", "selftest_"+p.ID+".json"))
	if err != nil {
		c.Extra["controls"] = "not run (run.sh thorough runs tools/selftest.py first)"
		return
	}
	var rs []map[string]interface{}
	if json.Unmarshal(b, &rs) != nil {
		return
	}
	counts := map[string]int{}
	var problems []string
	for _, r := range rs {
		st, _ := r["status"].(string)
		counts[st]++
		if st == "MISSED" || st == "WRONGKEY" || st == "FALSEALARM" {
			problems = append(problems, fmt.Sprint(r["id"], ": ", st))
		}
	}
	c.Extra["controls"] = map[string]interface{}{"counts": counts, "checker_defects": problems,
		"note": "each stored breaking edit (mutants/) and behaviour-preserving edit (neutral/) was applied to a scratch copy of the current tree and this property's check was run on it; a problem here is a defect of the checker, not of the tree, and does not produce a VIOLATION"}
}

// hasIndexingOnLine: does the repository source contain an index or slice expression on that line?
func (w *World) hasIndexingOnLine(relFile string, line int) bool {
	for path, p := range w.ByPath {
		if !strings.HasPrefix(path, RepoMod) {
			continue
		}
		for _, f := range p.Syntax {
			pos := w.Fset.Position(f.Pos())
			rel, _ := filepath.Rel(w.Dir, pos.Filename)
			if rel != relFile {
				continue
			}
			found := false
			ast.Inspect(f, func(n ast.Node) bool {
				if n == nil || found {
					return false
				}
				switch n.(type) {
				case *ast.IndexExpr, *ast.SliceExpr:
					a, b := w.Fset.Position(n.Pos()).Line, w.Fset.Position(n.End()).Line
					if a <= line && line <= b {
						found = true
					}
				}
				return true
			})
			return found
		}
	}
	return true
}
