package main

import (
	"fmt"
	"go/token"
	"go/types"
	"os"
	"sort"
	"strconv"
	"strings"

	"golang.org/x/tools/go/ssa"
)

// calleeName returns a stable, fully qualified name for the callee of a call:
//
//	pkg/path.Func, (*pkg/path.T).Method, (pkg/path.I).Method for interface invokes,
//	"builtin:len", "closure:<fn>" for direct closure calls, "dynamic" otherwise.
func calleeName(call ssa.CallInstruction) string {
	c := call.Common()
	if c.IsInvoke() {
		return c.Method.FullName()
	}
	switch v := c.Value.(type) {
	case *ssa.Function:
		return fnName(v)
	case *ssa.Builtin:
		return "builtin:" + v.Name()
	case *ssa.MakeClosure:
		return "closure:" + fnName(v.Fn.(*ssa.Function))
	}
	return "dynamic"
}

// fnName: qualified name of a function; closures get parent$n names (stable under line moves).
func fnName(fn *ssa.Function) string {
	if fn == nil {
		return "<nil>"
	}
	if o := fn.Object(); o != nil {
		if f, ok := o.(*types.Func); ok {
			return f.FullName()
		}
	}
	return fn.String()
}

// isCallTo reports whether instr is a call (or defer/go) whose callee name is one of names.
func isCallTo(instr ssa.Instruction, names ...string) bool {
	call, ok := instr.(ssa.CallInstruction)
	if !ok {
		return false
	}
	n := calleeName(call)
	for _, x := range names {
		if n == x {
			return true
		}
	}
	return false
}

// callsIn lists the call instructions of fn (including defer and go) in block order.
func callsIn(fn *ssa.Function) []ssa.CallInstruction {
	var out []ssa.CallInstruction
	for _, b := range fn.Blocks {
		for _, i := range b.Instrs {
			if c, ok := i.(ssa.CallInstruction); ok {
				out = append(out, c)
			}
		}
	}
	return out
}

// callsTo lists calls in fn whose callee name is one of names.
func callsTo(fn *ssa.Function, names ...string) []ssa.CallInstruction {
	var out []ssa.CallInstruction
	for _, c := range callsIn(fn) {
		if isCallTo(c, names...) {
			out = append(out, c)
		}
	}
	return out
}

// callArgs returns the arguments of a call with the receiver first for invokes (static method
// calls already carry the receiver as Args[0]).
func callArgs(call ssa.CallInstruction) []ssa.Value {
	c := call.Common()
	if c.IsInvoke() {
		return append([]ssa.Value{c.Value}, c.Args...)
	}
	return c.Args
}

// ---- cells: local allocs used as variables ----

// cellStores returns every value stored directly into the alloc (whole-variable stores), or ok=false
// when the address escapes in a way we do not follow (passed to a call, stored somewhere, etc.).
// Captures by closures are followed: stores made by closures through the free variable are included.
func cellStores(a *ssa.Alloc) (stores []*ssa.Store, ok bool) {
	ok = true
	var visitAddr func(addr ssa.Value)
	seen := map[ssa.Value]bool{}
	visitAddr = func(addr ssa.Value) {
		if seen[addr] {
			return
		}
		seen[addr] = true
		refs := addr.Referrers()
		if refs == nil {
			return
		}
		for _, r := range *refs {
			switch x := r.(type) {
			case *ssa.Store:
				if x.Addr == addr {
					stores = append(stores, x)
				} else {
					ok = false // address stored somewhere
				}
			case *ssa.UnOp:
				// load
			case *ssa.FieldAddr, *ssa.IndexAddr:
				// partial access: a store through it (or its escape) modifies the variable in part, so the
				// variable's value is no longer any single stored value
				if partiallyWritten(x.(ssa.Value)) {
					ok = false
				}
			case *ssa.MakeClosure:
				fn := x.Fn.(*ssa.Function)
				for i, b := range x.Bindings {
					if b == addr {
						visitAddr(fn.FreeVars[i])
					}
				}
			case *ssa.DebugRef:
			case *ssa.BinOp:
				// the address compared (with nil): no access
				if x.Op != token.EQL && x.Op != token.NEQ {
					ok = false
				}
			case *ssa.MakeInterface:
				// &x passed as any (e.g. json.Unmarshal(b, &x)): escapes
				ok = false
			case ssa.CallInstruction:
				// &x handed to a repository function with a body (e.g. `defer recoverInto(&err)`): what the callee does
				// with the pointer is followed like a captured variable - stores through it are stores into x, loads are
				// fine, anything else is an escape
				callee := x.Common().StaticCallee()
				if callee == nil || callee.Blocks == nil || x.Common().IsInvoke() || len(callee.Params) != len(x.Common().Args) {
					ok = false
					break
				}
				if _, isGo := x.(*ssa.Go); isGo {
					ok = false
					break
				}
				for i, arg := range x.Common().Args {
					if arg == addr {
						visitAddr(callee.Params[i])
					}
				}
			default:
				ok = false
			}
		}
	}
	visitAddr(a)
	return
}

// partiallyWritten: the element/field address (or a sub-address of it) is stored to or handed to a call.
func partiallyWritten(addr ssa.Value) bool {
	refs := addr.Referrers()
	if refs == nil {
		return false
	}
	for _, r := range *refs {
		switch x := r.(type) {
		case *ssa.Store:
			if x.Addr == addr {
				return true
			}
		case *ssa.FieldAddr:
			if partiallyWritten(x) {
				return true
			}
		case *ssa.IndexAddr:
			if partiallyWritten(x) {
				return true
			}
		case ssa.CallInstruction:
			return true
		}
	}
	return false
}

// Ex renders canonical expressions for SSA values.
type Ex struct {
	w     *World
	depth int
	short bool
	// bind maps free variables of closures to their bindings when unique.
	seen map[ssa.Value]bool
	// deep.go: parameters bound while printing the body of an inlined helper; helpers being inlined; parameters
	// being resolved upwards
	bind map[*ssa.Parameter]string
	inl  map[*ssa.Function]bool
	up   map[*ssa.Parameter]bool
}

func (w *World) Expr(v ssa.Value) string {
	e := &Ex{w: w, seen: map[ssa.Value]bool{}}
	return e.expr(v, 0)
}

// Short renders a compact expression: shallow depth, cells shown by type, module prefixes dropped.
func (w *World) Short(v ssa.Value) string {
	e := &Ex{w: w, seen: map[ssa.Value]bool{}, short: true}
	return shortName(e.expr(v, 0))
}

const exprMaxDepth = 14

func paramIndex(p *ssa.Parameter) int {
	for i, q := range p.Parent().Params {
		if q == p {
			return i
		}
	}
	return -1
}

// freeVarBinding resolves a closure free variable to the value bound at the (unique) MakeClosure site.
func freeVarBinding(fv *ssa.FreeVar) ssa.Value {
	fn := fv.Parent()
	idx := -1
	for i, x := range fn.FreeVars {
		if x == fv {
			idx = i
		}
	}
	parent := fn.Parent()
	if parent == nil || idx < 0 {
		return nil
	}
	var found ssa.Value
	n := 0
	for _, b := range parent.Blocks {
		for _, ins := range b.Instrs {
			if mc, ok := ins.(*ssa.MakeClosure); ok && mc.Fn == fn {
				found = mc.Bindings[idx]
				n++
			}
		}
	}
	if n == 1 {
		return found
	}
	return nil
}

func (e *Ex) expr(v ssa.Value, d int) string {
	if v == nil {
		return "<nil>"
	}
	if d > exprMaxDepth || (e.short && d > 5) {
		return "…"
	}
	if e.seen[v] {
		return "↺"
	}
	switch x := v.(type) {
	case *ssa.Const:
		if x.Value == nil {
			return "nil"
		}
		return "const(" + x.Value.ExactString() + ")"
	case *ssa.Parameter:
		if s, ok := e.bind[x]; ok {
			return s
		}
		if s, ok := e.paramUp(x, d); ok {
			return s
		}
		return fmt.Sprintf("p%d", paramIndex(x))
	case *ssa.FreeVar:
		if b := freeVarBinding(x); b != nil {
			return e.expr(b, d+1)
		}
		return "freevar:" + x.Name()
	case *ssa.Global:
		return "global:" + x.Pkg.Pkg.Path() + "." + x.Name()
	case *ssa.Function:
		return "func:" + fnName(x)
	case *ssa.Builtin:
		return "builtin:" + x.Name()
	case *ssa.ChangeType:
		return e.expr(x.X, d)
	case *ssa.ChangeInterface:
		return e.expr(x.X, d)
	case *ssa.MakeInterface:
		return e.expr(x.X, d)
	case *ssa.Convert:
		return "conv<" + types.TypeString(x.Type(), shortQual) + ">(" + e.expr(x.X, d+1) + ")"
	case *ssa.SliceToArrayPointer:
		return e.expr(x.X, d)
	case *ssa.Alloc:
		return "alloc<" + types.TypeString(x.Type().(*types.Pointer).Elem(), shortQual) + ">"
	case *ssa.UnOp:
		if x.Op == token.MUL {
			if rv := e.w.recordField(e.w.focus, x); rv != nil {
				return e.expr(rv, d+1)
			}
			return e.load(x, d)
		}
		return x.Op.String() + e.expr(x.X, d+1)
	case *ssa.FieldAddr:
		// field of a local struct variable that holds exactly one whole value (e.g. a by-value parameter spilled to a cell)
		if a, ok := x.X.(*ssa.Alloc); ok {
			if stores, ok2 := cellStores(a); ok2 && len(stores) == 1 {
				return e.expr(stores[0].Val, d+1) + "." + fieldName(x.X.Type(), x.Field)
			}
		}
		return e.expr(x.X, d+1) + "." + fieldName(x.X.Type(), x.Field)
	case *ssa.Field:
		if rv := e.w.recordField(e.w.focus, x); rv != nil {
			return e.expr(rv, d+1)
		}
		return e.expr(x.X, d+1) + "." + fieldName(x.X.Type(), x.Field)
	case *ssa.IndexAddr:
		// x[lo:][i] with constant lo and i is x[lo+i]
		if sl, ok := throughCell(strip(x.X)).(*ssa.Slice); ok && sl.Low != nil && sl.Max == nil {
			if lo, isLo := intConst(sl.Low); isLo {
				if i, isI := intConst(x.Index); isI {
					if _, isArr := sl.X.Type().Underlying().(*types.Pointer); !isArr {
						return e.expr(sl.X, d+1) + "[const(" + fmt.Sprint(lo+i) + ")]"
					}
				}
			}
		}
		return e.expr(x.X, d+1) + "[" + e.expr(x.Index, d+1) + "]"
	case *ssa.Index:
		return e.expr(x.X, d+1) + "[" + e.expr(x.Index, d+1) + "]"
	case *ssa.Lookup:
		return e.expr(x.X, d+1) + "[" + e.expr(x.Index, d+1) + "]"
	case *ssa.Slice:
		s := e.expr(x.X, d+1) + "["
		if x.Low != nil {
			s += e.expr(x.Low, d+1)
		}
		s += ":"
		if x.High != nil {
			s += e.expr(x.High, d+1)
		}
		if x.Max != nil {
			s += ":" + e.expr(x.Max, d+1)
		}
		return s + "]"
	case *ssa.BinOp:
		l, r := e.expr(x.X, d+1), e.expr(x.Y, d+1)
		// arithmetic over a helper parameter that resolved to a constant argument is that constant
		_, px := strip(x.X).(*ssa.Parameter)
		_, py := strip(x.Y).(*ssa.Parameter)
		if px || py {
			if a, okA := constText(l); okA {
				if b, okB := constText(r); okB {
					switch x.Op {
					case token.ADD:
						return fmt.Sprintf("const(%d)", a+b)
					case token.SUB:
						return fmt.Sprintf("const(%d)", a-b)
					case token.MUL:
						return fmt.Sprintf("const(%d)", a*b)
					}
				}
			}
		}
		return "(" + l + x.Op.String() + r + ")"
	case *ssa.Phi:
		e.seen[v] = true
		set := map[string]bool{}
		for _, ed := range x.Edges {
			set[e.expr(ed, d+1)] = true
		}
		delete(e.seen, v)
		delete(set, "↺")
		var parts []string
		for s := range set {
			parts = append(parts, s)
		}
		sort.Strings(parts)
		if len(parts) == 1 {
			return parts[0]
		}
		return "phi{" + strings.Join(parts, "|") + "}"
	case *ssa.Extract:
		if c, ok := x.Tuple.(*ssa.Call); ok {
			if s, ok := e.inlineCall(c, x.Index, d); ok {
				return s
			}
		}
		return e.expr(x.Tuple, d) + "#" + fmt.Sprint(x.Index)
	case *ssa.Call:
		if x.Call.Signature().Results().Len() == 1 {
			if s, ok := e.inlineCall(x, 0, d); ok {
				return s
			}
		}
		var args []string
		for _, a := range callArgs(x) {
			args = append(args, e.expr(a, d+1))
		}
		cn := calleeName(x)
		if cn == "dynamic" {
			cn = "dyn " + e.expr(x.Call.Value, d+1)
		}
		return "call<" + cn + ">(" + strings.Join(args, ",") + ")"
	case *ssa.MakeSlice:
		return "makeslice<" + types.TypeString(x.Type(), shortQual) + ">(" + e.expr(x.Len, d+1) + ")"
	case *ssa.MakeMap:
		return "makemap<" + types.TypeString(x.Type(), shortQual) + ">"
	case *ssa.MakeChan:
		return "makechan"
	case *ssa.MakeClosure:
		return "closure:" + fnName(x.Fn.(*ssa.Function))
	case *ssa.TypeAssert:
		return e.expr(x.X, d+1) + ".(" + types.TypeString(x.AssertedType, shortQual) + ")"
	case *ssa.Range:
		return "range(" + e.expr(x.X, d+1) + ")"
	case *ssa.Next:
		return "next(" + e.expr(x.Iter, d+1) + ")"
	}
	return fmt.Sprintf("?%T", v)
}

// constText: the integer of a printed "const(n)".
func constText(s string) (int64, bool) {
	if !strings.HasPrefix(s, "const(") || !strings.HasSuffix(s, ")") {
		return 0, false
	}
	n, err := strconv.ParseInt(s[6:len(s)-1], 10, 64)
	return n, err == nil
}

// paramUp: a parameter of a helper (any function of Tree(focus) other than the focus) prints as the argument at
// its call sites in Tree(focus) when they all print alike.
func (e *Ex) paramUp(p *ssa.Parameter, d int) (string, bool) {
	w := e.w
	g := p.Parent()
	if os.Getenv("YV_DEBUG") == "paramup" {
		fmt.Fprintln(os.Stderr, "paramUp", g, "focus", w.focus, "transp", w.transparent(g), "sites", len(w.sitesIn(w.focus, g)), "dyn", w.dynCallable(g))
	}
	if w == nil || w.focus == nil || g == w.focus || !w.transparent(g) || e.up[p] {
		return "", false
	}
	sites := w.sitesIn(w.focus, g)
	if len(sites) == 0 || w.dynCallable(g) {
		return "", false
	}
	idx := paramIndex(p)
	if e.up == nil {
		e.up = map[*ssa.Parameter]bool{}
	}
	e.up[p] = true
	defer delete(e.up, p)
	out := ""
	for i, s := range sites {
		args := s.Common().Args
		if idx < 0 || idx >= len(args) {
			return "", false
		}
		cur := e.expr(args[idx], d)
		if i > 0 && cur != out {
			return "", false
		}
		out = cur
	}
	return out, true
}

// simpleExpr: v is an expression over parameters, constants, globals, fields, elements and calls, without joins
// (phis, variables with several stores) and of small size. Only such helper results are printed in place of the
// call; anything richer keeps the helper's name.
func simpleExpr(v ssa.Value, n *int) bool {
	*n++
	if *n > 24 {
		return false
	}
	v = throughCell(strip(v))
	switch x := v.(type) {
	case *ssa.Const, *ssa.Parameter, *ssa.Global, *ssa.Function, *ssa.Builtin:
		return true
	case *ssa.Alloc:
		return true
	case *ssa.FreeVar:
		return false
	case *ssa.Phi:
		return false
	case *ssa.UnOp:
		if x.Op == token.MUL {
			if _, isAlloc := x.X.(*ssa.Alloc); isAlloc {
				return false // a variable that throughCell could not reduce to one store
			}
		}
		return simpleExpr(x.X, n)
	case *ssa.Convert:
		return simpleExpr(x.X, n)
	case *ssa.FieldAddr:
		return simpleExpr(x.X, n)
	case *ssa.Field:
		return simpleExpr(x.X, n)
	case *ssa.IndexAddr:
		return simpleExpr(x.X, n) && simpleExpr(x.Index, n)
	case *ssa.Index:
		return simpleExpr(x.X, n) && simpleExpr(x.Index, n)
	case *ssa.Lookup:
		return simpleExpr(x.X, n) && simpleExpr(x.Index, n)
	case *ssa.Slice:
		for _, y := range []ssa.Value{x.X, x.Low, x.High, x.Max} {
			if y != nil && !simpleExpr(y, n) {
				return false
			}
		}
		return true
	case *ssa.BinOp:
		return simpleExpr(x.X, n) && simpleExpr(x.Y, n)
	case *ssa.Extract:
		return simpleExpr(x.Tuple, n)
	case *ssa.TypeAssert:
		return simpleExpr(x.X, n)
	case *ssa.Call:
		if x.Call.IsInvoke() {
			if !simpleExpr(x.Call.Value, n) {
				return false
			}
		} else if _, isFn := x.Call.Value.(*ssa.Function); !isFn {
			if _, isB := x.Call.Value.(*ssa.Builtin); !isB && !simpleExpr(x.Call.Value, n) {
				return false
			}
		}
		for _, a := range x.Call.Args {
			if !simpleExpr(a, n) {
				return false
			}
		}
		return true
	}
	return false
}

// inlineCall: result idx of a call to a transparent helper prints as the value the helper's success returns
// yield, when they all yield the same one; the helper's parameters are bound to the arguments of this call.
func (e *Ex) inlineCall(c *ssa.Call, idx int, d int) (string, bool) {
	w := e.w
	if w == nil {
		return "", false
	}
	h := w.helperOf(c)
	if h == nil || !w.transparent(h) || h == w.focus || e.inl[h] {
		return "", false
	}
	if errorResultIndex(h) == idx {
		return "", false
	}
	val := w.successValue(h, idx)
	if val == nil || !simpleExpr(val, new(int)) {
		return "", false
	}
	if len(c.Call.Args) != len(h.Params) {
		return "", false
	}
	saved := map[*ssa.Parameter]*string{}
	bound := make([]string, len(h.Params))
	for i := range h.Params {
		bound[i] = e.expr(c.Call.Args[i], d+1)
	}
	if e.bind == nil {
		e.bind = map[*ssa.Parameter]string{}
	}
	if e.inl == nil {
		e.inl = map[*ssa.Function]bool{}
	}
	for i, p := range h.Params {
		if old, ok := e.bind[p]; ok {
			o := old
			saved[p] = &o
		} else {
			saved[p] = nil
		}
		e.bind[p] = bound[i]
	}
	e.inl[h] = true
	s := e.expr(val, d)
	delete(e.inl, h)
	for p, old := range saved {
		if old == nil {
			delete(e.bind, p)
		} else {
			e.bind[p] = *old
		}
	}
	return s, true
}

func shortQual(p *types.Package) string { return p.Path() }

func fieldName(t types.Type, idx int) string {
	if p, ok := t.Underlying().(*types.Pointer); ok {
		t = p.Elem()
	}
	st, ok := t.Underlying().(*types.Struct)
	if !ok || idx >= st.NumFields() {
		return fmt.Sprintf("f%d", idx)
	}
	return st.Field(idx).Name()
}

// load renders *addr: cells are replaced by what may have been stored into them.
func (e *Ex) load(u *ssa.UnOp, d int) string {
	addr := u.X
	// resolve free var to the captured alloc
	base := addr
	if fv, ok := base.(*ssa.FreeVar); ok {
		if b := freeVarBinding(fv); b != nil {
			base = b
		}
	}
	if a, ok := base.(*ssa.Alloc); ok {
		if stores, ok2 := cellStores(a); ok2 && len(stores) > 0 && e.short {
			if rs := cellReaching(stores, u); len(rs) != 1 {
				return "var<" + types.TypeString(a.Type().(*types.Pointer).Elem(), shortQual) + ">"
			}
		}
		if stores, ok2 := cellStores(a); ok2 && len(stores) > 0 {
			rs := cellReaching(stores, u)
			e.seen[u] = true
			set := map[string]bool{}
			for _, s := range rs {
				set[e.expr(s.Val, d+1)] = true
			}
			delete(e.seen, u)
			var parts []string
			for s := range set {
				parts = append(parts, s)
			}
			sort.Strings(parts)
			if len(parts) == 1 {
				return parts[0]
			}
			return "cell{" + strings.Join(parts, "|") + "}"
		}
		if ok2 := a != nil; ok2 {
			if stores, ok3 := cellStores(a); ok3 && len(stores) == 0 {
				// never stored as a whole: zero value possibly with field stores
				return "zero<" + types.TypeString(a.Type().(*types.Pointer).Elem(), shortQual) + ">"
			}
		}
	}
	return e.expr(addr, d+1)
}

// deferredOnly reports whether fn (a closure) is only ever invoked through a defer statement of its parent.
func deferredOnly(fn *ssa.Function) bool {
	parent := fn.Parent()
	if parent == nil {
		return false
	}
	n := 0
	for _, b := range parent.Blocks {
		for _, ins := range b.Instrs {
			mc, ok := ins.(*ssa.MakeClosure)
			if !ok || mc.Fn != fn {
				continue
			}
			n++
			refs := mc.Referrers()
			if refs == nil {
				return false
			}
			for _, r := range *refs {
				d, ok := r.(*ssa.Defer)
				if !ok || d.Call.Value != ssa.Value(mc) {
					if _, isDbg := r.(*ssa.DebugRef); isDbg {
						continue
					}
					return false
				}
			}
		}
	}
	return n > 0
}

// afterRunDefers: can `load` execute after a rundefers instruction of its function (or in the recover block)?
func afterRunDefers(load ssa.Instruction) bool {
	fn := load.Parent()
	if fn.Recover != nil && load.Block() == fn.Recover {
		return true
	}
	for _, b := range fn.Blocks {
		for _, ins := range b.Instrs {
			if _, ok := ins.(*ssa.RunDefers); ok {
				if ReachableAvoiding(ins, nil)(load) {
					return true
				}
			}
		}
	}
	return false
}

// cellReaching returns the stores whose value may be observed by `load` of a local cell.
// Local stores are refined flow-sensitively (a unique dominating last store wins); stores made by
// closures are included unless the closure only runs at rundefers and the load cannot come after one.
func cellReaching(stores []*ssa.Store, load ssa.Instruction) []*ssa.Store {
	var local, foreign []*ssa.Store
	for _, s := range stores {
		if s.Parent() == load.Parent() {
			local = append(local, s)
		} else {
			foreign = append(foreign, s)
		}
	}
	var out []*ssa.Store
	if s := reachingStore(local, load); s != nil {
		out = append(out, s)
	} else {
		// keep local stores that can reach the load at all
		for _, s := range local {
			if ReachableAvoiding(s, nil)(load) || load.Parent().Recover == load.Block() {
				out = append(out, s)
			}
		}
	}
	for _, s := range foreign {
		if isAncestor(load.Parent(), s.Parent()) && deferredOnly(directChild(load.Parent(), s.Parent())) && !afterRunDefers(load) {
			continue
		}
		if deferredCalleeOnly(load, s.Parent()) && !afterRunDefers(load) {
			continue
		}
		out = append(out, s)
	}
	return out
}

// deferredCalleeOnly: load reads a local variable whose address is handed to the named function g only by defer
// statements of load's function (`defer g(&x)`): g's stores through the pointer take effect at rundefers.
func deferredCalleeOnly(load ssa.Instruction, g *ssa.Function) bool {
	u, ok := load.(*ssa.UnOp)
	if !ok || g.Parent() != nil {
		return false
	}
	a, ok := u.X.(*ssa.Alloc)
	if !ok {
		return false
	}
	refs := a.Referrers()
	if refs == nil {
		return false
	}
	n := 0
	for _, r := range *refs {
		call, isCall := r.(ssa.CallInstruction)
		if !isCall || call.Common().StaticCallee() != g {
			continue
		}
		if _, isDefer := r.(*ssa.Defer); !isDefer {
			return false
		}
		n++
	}
	return n > 0
}

func isAncestor(anc, fn *ssa.Function) bool {
	for p := fn.Parent(); p != nil; p = p.Parent() {
		if p == anc {
			return true
		}
	}
	return false
}

func directChild(anc, fn *ssa.Function) *ssa.Function {
	for fn.Parent() != nil && fn.Parent() != anc {
		fn = fn.Parent()
	}
	return fn
}

// reachingStore returns the unique store that must be the last write before the load: a store in the
// same function that dominates the load, with no other store on any path between them.
func reachingStore(stores []*ssa.Store, load ssa.Instruction) *ssa.Store {
	var cands []*ssa.Store
	for _, s := range stores {
		if s.Parent() != load.Parent() {
			return nil
		}
	}
	for _, s := range stores {
		if InstrDominates(s, load) {
			cands = append(cands, s)
		}
	}
	for _, s := range cands {
		okAll := true
		for _, o := range stores {
			if o == s {
				continue
			}
			if ReachableAvoiding(o, map[ssa.Instruction]bool{s: true})(load) {
				okAll = false
				break
			}
		}
		if okAll {
			return s
		}
	}
	return nil
}

// FieldStores collects the values stored into fields of the struct pointed to by base (an Alloc or
// any pointer value) inside function fn: field name -> stored values (in program order).
func FieldStores(fn *ssa.Function, base ssa.Value) map[string][]ssa.Value {
	out := map[string][]ssa.Value{}
	refs := base.Referrers()
	if refs == nil {
		return out
	}
	for _, r := range *refs {
		fa, ok := r.(*ssa.FieldAddr)
		if !ok || fa.X != base {
			continue
		}
		name := fieldName(fa.X.Type(), fa.Field)
		if fr := fa.Referrers(); fr != nil {
			for _, u := range *fr {
				if st, ok := u.(*ssa.Store); ok && st.Addr == fa {
					out[name] = append(out[name], st.Val)
				}
			}
		}
	}
	return out
}
