package main

import (
	"fmt"
	"go/constant"
	"go/token"
	"go/types"
	"sort"
	"strings"

	"golang.org/x/tools/go/ssa"
)

// Decision-table extraction for loop-free code (E4).
//
// A function (or a single-entry region) is interpreted over a small abstract domain: constants, nil /
// non-nil, and named ATOMS with finite domains (a bool field, an enum field, "this call failed").
// Whenever a branch needs the value of an atom that the current path has not fixed, the path forks over
// the atom's domain. The outcome is a decision tree whose leaves carry the classified result; it is then
// compared, valuation by valuation, with the specification function written in the checker. No concrete
// input is ever run and no solver is involved: it is predicate abstraction over the CFG. Anything the
// interpreter does not understand becomes an anonymous atom; if a result depends on one the obligation is
// undecided (never passed).

type avKind int

const (
	avUnknown avKind = iota
	avBool
	avInt
	avStr
	avNil
	avNonNil
	avAtom   // symbolic: value of atom Name (resolved through the path's assignment)
	avObject // an opaque object with abstract fields (Obj)
	avTuple
)

type absVal struct {
	K     avKind
	B     bool
	I     int64
	S     string
	Name  string   // atom name
	Obj   string   // object identity for field atoms: fields are atoms "<Obj>.<field>"
	Tuple []absVal // for calls returning several results
	Tag   string   // free classification tag carried to the result (e.g. "suffix:touch")
}

func (a absVal) String() string {
	switch a.K {
	case avBool:
		return fmt.Sprint(a.B)
	case avInt:
		return fmt.Sprint(a.I)
	case avStr:
		return fmt.Sprintf("%q", a.S)
	case avNil:
		return "nil"
	case avNonNil:
		if a.Tag != "" {
			return "nonnil(" + a.Tag + ")"
		}
		return "nonnil"
	case avAtom:
		return "atom:" + a.Name
	case avObject:
		return "obj:" + a.Obj
	case avTuple:
		var p []string
		for _, t := range a.Tuple {
			p = append(p, t.String())
		}
		return "(" + strings.Join(p, ",") + ")"
	}
	if a.Tag != "" {
		return "?" + a.Tag
	}
	return "?"
}

type dtSpec struct {
	// Domain of each named atom. Atoms not listed are boolean.
	Domain map[string][]absVal
	// FieldAtom maps a field read from an abstract object to an atom name ("" = not an atom).
	FieldAtom func(obj, field string) string
	// OnCall models a call that is not inlined. ok=false lets the engine inline (repository static callees) or give unknown.
	OnCall func(e *dtRun, call ssa.CallInstruction, args []absVal) (absVal, bool)
	// NoInline: repository functions that must not be inlined (they contain loops and are modelled by OnCall).
	NoInline map[string]bool
	// Event hook: instructions that are recorded on the path (effects), e.g. appends to a result variable.
	OnInstr  func(e *dtRun, ins ssa.Instruction) (event string)
	MaxDepth int
}

type dtLeaf struct {
	Assign map[string]absVal
	Result []absVal
	Events []string
	Note   string
}

type dtRun struct {
	w      *World
	spec   *dtSpec
	assign map[string]absVal
	need   string // atom that had to be decided (fork request)
	events []string
	fail   string
	anon   int
	// fields written on this run into local records (struct literals): object.field -> value
	fstore map[string]absVal
}

type dtFrame struct {
	fn   *ssa.Function
	env  map[ssa.Value]absVal
	args []absVal
	mem  map[string]absVal // local variable cells (allocs): last stored value
}

// DecisionTable enumerates the leaves of fn's decision tree. args are the abstract parameters.
// dtAllocName: the abstract object of a local variable; a struct is qualified by its function because records are
// handed from frame to frame (by value or by pointer) and read there field by field.
func dtAllocName(a *ssa.Alloc) string {
	if _, isStruct := a.Type().(*types.Pointer).Elem().Underlying().(*types.Struct); isStruct && a.Parent() != nil {
		return "alloc:" + a.Parent().Name() + "#" + a.Name()
	}
	return "alloc:" + a.Name()
}

func (w *World) DecisionTable(fn *ssa.Function, args []absVal, spec *dtSpec) (leaves []dtLeaf, undecided []string) {
	return w.decisionRegion(fn, args, spec, nil, nil)
}

// DecisionRegion interprets from block `start` until control reaches a block in `stop` (classified by the events seen).
func (w *World) DecisionRegion(fn *ssa.Function, args []absVal, spec *dtSpec, start *ssa.BasicBlock, stop map[*ssa.BasicBlock]string) (leaves []dtLeaf, undecided []string) {
	return w.decisionRegion(fn, args, spec, start, stop)
}

func (w *World) decisionRegion(fn *ssa.Function, args []absVal, spec *dtSpec, start *ssa.BasicBlock, stop map[*ssa.BasicBlock]string) (leaves []dtLeaf, undecided []string) {
	work := []map[string]absVal{{}}
	guard := 0
	for len(work) > 0 {
		guard++
		if guard > 20000 {
			undecided = append(undecided, "path explosion")
			break
		}
		as := work[len(work)-1]
		work = work[:len(work)-1]
		run := &dtRun{w: w, spec: spec, assign: as}
		res, stopTag := run.call(fn, args, 0, start, stop)
		if run.fail != "" {
			undecided = append(undecided, run.fail)
			continue
		}
		if run.need != "" {
			dom := spec.Domain[run.need]
			if dom == nil {
				dom = []absVal{{K: avBool, B: false}, {K: avBool, B: true}}
			}
			for _, v := range dom {
				na := map[string]absVal{}
				for k, x := range as {
					na[k] = x
				}
				na[run.need] = v
				work = append(work, na)
			}
			continue
		}
		leaves = append(leaves, dtLeaf{Assign: as, Result: res, Events: run.events, Note: stopTag})
	}
	return
}

func (r *dtRun) resolve(v absVal) absVal {
	for v.K == avAtom {
		c, ok := r.assign[v.Name]
		if !ok {
			if r.need == "" {
				r.need = v.Name
			}
			return absVal{K: avUnknown}
		}
		v = c
	}
	return v
}

func (r *dtRun) anonAtom(tag string) absVal {
	return absVal{K: avAtom, Name: "?" + tag}
}

// call interprets fn; returns the abstract results.
func (r *dtRun) call(fn *ssa.Function, args []absVal, depth int, start *ssa.BasicBlock, stop map[*ssa.BasicBlock]string) ([]absVal, string) {
	maxd := r.spec.MaxDepth
	if maxd == 0 {
		maxd = 4
	}
	if depth > maxd {
		r.fail = "inlining depth exceeded at " + fn.String()
		return nil, ""
	}
	fr := &dtFrame{fn: fn, env: map[ssa.Value]absVal{}, args: args, mem: map[string]absVal{}}
	b := fn.Blocks[0]
	if start != nil {
		b = start
		// parameters spilled to cells in the entry block (captured by closures) keep their value
		for _, ins := range fn.Blocks[0].Instrs {
			if st, ok := ins.(*ssa.Store); ok {
				if a, ok := st.Addr.(*ssa.Alloc); ok {
					if p, ok := st.Val.(*ssa.Parameter); ok && paramIndex(p) < len(args) {
						fr.mem[dtAllocName(a)] = args[paramIndex(p)]
					}
				}
			}
		}
	}
	var prev *ssa.BasicBlock
	visited := map[*ssa.BasicBlock]int{}
	for {
		if tag, isStop := stop[b]; isStop && prev != nil {
			return nil, tag
		}
		visited[b]++
		if visited[b] > 1 {
			r.fail = fmt.Sprintf("loop reached in %s (block %d): not a loop-free region", fn.Name(), b.Index)
			return nil, ""
		}
		for _, ins := range b.Instrs {
			if r.need != "" || r.fail != "" {
				return nil, ""
			}
			if r.spec.OnInstr != nil {
				if ev := r.spec.OnInstr(r, ins); ev != "" {
					r.events = append(r.events, ev)
				}
			}
			switch x := ins.(type) {
			case *ssa.Phi:
				for i, p := range b.Preds {
					if p == prev {
						fr.env[x] = r.eval(fr, x.Edges[i])
					}
				}
			case *ssa.If:
				cv := r.resolve(r.eval(fr, x.Cond))
				if r.need != "" {
					return nil, ""
				}
				if cv.K != avBool {
					// not understood: anonymous atom keyed by the condition's expression
					at := r.anonAtom(r.w.Short(x.Cond))
					cv = r.resolve(at)
					if r.need != "" {
						return nil, ""
					}
				}
				prev = b
				if cv.B {
					b = b.Succs[0]
				} else {
					b = b.Succs[1]
				}
				goto next
			case *ssa.Jump:
				prev = b
				b = b.Succs[0]
				goto next
			case *ssa.Return:
				var out []absVal
				for _, rv := range x.Results {
					out = append(out, r.resolveShallow(r.eval(fr, rv)))
					if r.need != "" {
						return nil, ""
					}
				}
				return out, ""
			case *ssa.Panic:
				return []absVal{{K: avUnknown, Tag: "panic"}}, "panic"
			case *ssa.Store:
				if a, ok := x.Addr.(*ssa.Alloc); ok {
					fr.mem[dtAllocName(a)] = r.eval(fr, x.Val)
				} else if fa, ok := x.Addr.(*ssa.FieldAddr); ok {
					// a field of a local record (struct literal)
					if base := r.eval(fr, fa.X); base.K == avObject && strings.HasPrefix(base.Obj, "alloc:") && strings.Contains(base.Obj, "#") {
						if r.fstore == nil {
							r.fstore = map[string]absVal{}
						}
						r.fstore[base.Obj+"."+fieldName(fa.X.Type(), fa.Field)] = r.eval(fr, x.Val)
					}
				}
			case ssa.Value:
				fr.env[x] = r.evalInstr(fr, x, depth)
			}
		}
		return nil, ""
	next:
	}
}

// resolveShallow resolves atoms to concrete values but keeps tags.
func (r *dtRun) resolveShallow(v absVal) absVal {
	if v.K == avAtom {
		return r.resolve(v)
	}
	return v
}

func (r *dtRun) eval(fr *dtFrame, v ssa.Value) absVal {
	if v == nil {
		return absVal{}
	}
	if a, ok := fr.env[v]; ok {
		return a
	}
	switch x := v.(type) {
	case *ssa.Const:
		if x.Value == nil {
			return absVal{K: avNil}
		}
		switch x.Value.Kind() {
		case constant.Bool:
			return absVal{K: avBool, B: constant.BoolVal(x.Value)}
		case constant.Int:
			i, _ := constant.Int64Val(x.Value)
			return absVal{K: avInt, I: i}
		case constant.String:
			return absVal{K: avStr, S: constant.StringVal(x.Value)}
		}
		return absVal{}
	case *ssa.Parameter:
		i := paramIndex(x)
		if i < len(fr.args) {
			return fr.args[i]
		}
	case *ssa.FreeVar:
		return absVal{K: avUnknown, Tag: "freevar " + x.Name()}
	case *ssa.Global:
		return absVal{K: avObject, Obj: "global:" + x.Name()}
	case *ssa.Function:
		return absVal{K: avNonNil, Tag: "func:" + fnName(x)}
	case *ssa.Alloc:
		// a cell defined outside the interpreted region
		return absVal{K: avObject, Obj: dtAllocName(x)}
	}
	return absVal{}
}

func (r *dtRun) evalInstr(fr *dtFrame, v ssa.Value, depth int) absVal {
	switch x := v.(type) {
	case *ssa.ChangeType:
		return r.eval(fr, x.X)
	case *ssa.ChangeInterface:
		return r.eval(fr, x.X)
	case *ssa.MakeInterface:
		switch x.X.Type().Underlying().(type) {
		case *types.Basic, *types.Struct, *types.Array:
			// a boxed non-pointer value is never a nil interface
			if isErrorType(x.Type()) {
				return absVal{K: avNonNil, Tag: "error"}
			}
		}
		in := r.eval(fr, x.X)
		if in.K == avNil {
			// typed nil pointer in an interface is a non-nil interface; keep it simple: unknown
			return absVal{K: avNonNil, Tag: "typed-nil"}
		}
		if in.K == avUnknown || in.K == avObject {
			return absVal{K: avNonNil, Tag: in.Tag}
		}
		return in
	case *ssa.Convert:
		return r.eval(fr, x.X)
	case *ssa.Alloc:
		return absVal{K: avObject, Obj: dtAllocName(x)}
	case *ssa.FieldAddr:
		base := r.eval(fr, x.X)
		if a, isAlloc := x.X.(*ssa.Alloc); isAlloc {
			// a local holding a whole copy of a record: the record itself
			if v, ok := fr.mem[dtAllocName(a)]; ok && v.K == avObject && strings.Contains(v.Obj, "#") {
				base = v
			}
		}
		if base.K == avObject {
			return absVal{K: avObject, Obj: base.Obj + "." + fieldName(x.X.Type(), x.Field), Tag: "addr"}
		}
		if base.K == avNil {
			return absVal{K: avUnknown, Tag: "nil-deref"}
		}
		return absVal{}
	case *ssa.Field:
		base := r.eval(fr, x.X)
		if base.K == avObject {
			return r.fieldVal(base.Obj, fieldName(x.X.Type(), x.Field), x.Type())
		}
		return absVal{}
	case *ssa.UnOp:
		switch x.Op {
		case token.MUL:
			a := r.eval(fr, x.X)
			if a.K == avObject && a.Tag == "addr" {
				i := strings.LastIndex(a.Obj, ".")
				return r.fieldVal(a.Obj[:i], a.Obj[i+1:], x.Type())
			}
			if a.K == avObject {
				if v, ok := fr.mem[a.Obj]; ok {
					return v
				}
				// load of a whole object (struct copy / pointer stored in a global)
				return absVal{K: avObject, Obj: a.Obj}
			}
			return absVal{}
		case token.NOT:
			a := r.resolve(r.eval(fr, x.X))
			if a.K == avBool {
				return absVal{K: avBool, B: !a.B}
			}
			return absVal{}
		}
	case *ssa.BinOp:
		return r.binop(fr, x)
	case *ssa.Extract:
		t := r.eval(fr, x.Tuple)
		if t.K == avTuple && x.Index < len(t.Tuple) {
			return t.Tuple[x.Index]
		}
		return absVal{}
	case *ssa.Lookup:
		// a lookup in a package-level map literal that is never modified, with a concrete key: the literal decides
		if ld, ok := x.X.(*ssa.UnOp); ok {
			if g, ok := ld.X.(*ssa.Global); ok && r.w.globalFrozen(g) {
				if entries, ok := r.w.mapLiteralEntries(g); ok {
					k := r.resolve(r.eval(fr, x.Index))
					if r.need != "" {
						return absVal{}
					}
					if k.K == avInt || k.K == avStr {
						var hit *fmEntry
						for i := range entries {
							e := &entries[i]
							if k.K == avInt {
								if iv, exact := constant.Int64Val(e.Key); exact && e.Key.Kind() == constant.Int && iv == k.I {
									hit = e
								}
							} else if e.Key.Kind() == constant.String && constant.StringVal(e.Key) == k.S {
								hit = e
							}
						}
						val := zeroOf(x.Type())
						if x.CommaOk {
							val = zeroOf(x.Type().(*types.Tuple).At(0).Type())
						}
						if hit != nil {
							val = r.eval(fr, hit.Vals[0])
						}
						if x.CommaOk {
							return absVal{K: avTuple, Tuple: []absVal{val, {K: avBool, B: hit != nil}}}
						}
						return val
					}
				}
			}
		}
		m := r.resolve(r.eval(fr, x.X))
		if r.need != "" {
			return absVal{}
		}
		k := r.resolve(r.eval(fr, x.Index))
		if r.need != "" {
			return absVal{}
		}
		if r.spec.OnCall != nil {
			// map lookups are delegated to the spec through a pseudo-call description
		}
		if m.K == avNil {
			if x.CommaOk {
				return absVal{K: avTuple, Tuple: []absVal{{K: avStr, S: ""}, {K: avBool, B: false}}}
			}
			return zeroOf(x.Type())
		}
		if m.K == avObject {
			key := k.String()
			at := absVal{K: avAtom, Name: m.Obj + "[" + key + "]"}
			if x.CommaOk {
				return absVal{K: avTuple, Tuple: []absVal{at, {K: avAtom, Name: m.Obj + "[" + key + "].ok"}}}
			}
			return at
		}
		return absVal{}
	case *ssa.Call:
		return r.doCall(fr, x, depth)
	case *ssa.TypeAssert:
		if x.CommaOk {
			return absVal{K: avTuple, Tuple: []absVal{{K: avNonNil, Tag: "asserted"}, {K: avAtom, Name: "is:" + types.TypeString(x.AssertedType, shortQual2)}}}
		}
		return absVal{}
	case *ssa.Slice, *ssa.MakeSlice, *ssa.MakeMap, *ssa.MakeClosure:
		return absVal{K: avNonNil}
	case *ssa.IndexAddr, *ssa.Index:
		return absVal{}
	}
	return absVal{}
}

func zeroOf(t types.Type) absVal {
	switch u := t.Underlying().(type) {
	case *types.Basic:
		switch {
		case u.Info()&types.IsString != 0:
			return absVal{K: avStr, S: ""}
		case u.Info()&types.IsBoolean != 0:
			return absVal{K: avBool}
		case u.Info()&types.IsInteger != 0:
			return absVal{K: avInt}
		}
	case *types.Pointer, *types.Interface, *types.Map, *types.Slice:
		return absVal{K: avNil}
	}
	return absVal{}
}

func (r *dtRun) fieldVal(obj, field string, t types.Type) absVal {
	if v, ok := r.fstore[obj+"."+field]; ok {
		return v
	}
	if r.spec.FieldAtom != nil {
		if name := r.spec.FieldAtom(obj, field); name != "" {
			return absVal{K: avAtom, Name: name}
		}
	}
	// nested object
	switch t.Underlying().(type) {
	case *types.Struct, *types.Pointer, *types.Map:
		return absVal{K: avObject, Obj: obj + "." + field}
	}
	return absVal{K: avAtom, Name: "?" + obj + "." + field}
}

func (r *dtRun) binop(fr *dtFrame, x *ssa.BinOp) absVal {
	a := r.resolve(r.eval(fr, x.X))
	if r.need != "" {
		return absVal{}
	}
	b := r.resolve(r.eval(fr, x.Y))
	if r.need != "" {
		return absVal{}
	}
	cmp := func(eq bool) absVal {
		if x.Op == token.NEQ {
			eq = !eq
		}
		return absVal{K: avBool, B: eq}
	}
	switch x.Op {
	case token.EQL, token.NEQ:
		switch {
		case a.K == avBool && b.K == avBool:
			return cmp(a.B == b.B)
		case a.K == avInt && b.K == avInt:
			return cmp(a.I == b.I)
		case a.K == avStr && b.K == avStr:
			return cmp(a.S == b.S)
		case a.K == avNil && b.K == avNil:
			return cmp(true)
		case (a.K == avNil && (b.K == avNonNil || b.K == avObject)) || (b.K == avNil && (a.K == avNonNil || a.K == avObject)):
			return cmp(false)
		}
		return absVal{}
	case token.LSS, token.LEQ, token.GTR, token.GEQ:
		if a.K == avInt && b.K == avInt {
			var v bool
			switch x.Op {
			case token.LSS:
				v = a.I < b.I
			case token.LEQ:
				v = a.I <= b.I
			case token.GTR:
				v = a.I > b.I
			case token.GEQ:
				v = a.I >= b.I
			}
			return absVal{K: avBool, B: v}
		}
	case token.ADD:
		if a.K == avInt && b.K == avInt {
			return absVal{K: avInt, I: a.I + b.I}
		}
		if a.K == avStr && b.K == avStr {
			return absVal{K: avStr, S: a.S + b.S}
		}
	case token.SUB:
		if a.K == avInt && b.K == avInt {
			return absVal{K: avInt, I: a.I - b.I}
		}
	case token.MUL:
		if a.K == avInt && b.K == avInt {
			return absVal{K: avInt, I: a.I * b.I}
		}
	case token.AND, token.OR:
		if a.K == avInt && b.K == avInt {
			if x.Op == token.AND {
				return absVal{K: avInt, I: a.I & b.I}
			}
			return absVal{K: avInt, I: a.I | b.I}
		}
	}
	return absVal{}
}

func (r *dtRun) doCall(fr *dtFrame, call *ssa.Call, depth int) absVal {
	var args []absVal
	for _, a := range callArgs(call) {
		args = append(args, r.eval(fr, a))
	}
	if r.spec.OnCall != nil {
		if v, ok := r.spec.OnCall(r, call, args); ok {
			return v
		}
	}
	name := calleeName(call)
	switch name {
	case "errors.New", "fmt.Errorf":
		return absVal{K: avNonNil, Tag: "error"}
	case "builtin:len":
		a := r.resolve(args[0])
		if a.K == avStr {
			return absVal{K: avInt, I: int64(len(a.S))}
		}
		if a.K == avNil {
			return absVal{K: avInt, I: 0}
		}
		return absVal{}
	}
	callee := call.Call.StaticCallee()
	// closure value known
	if callee == nil {
		if v := r.eval(fr, call.Call.Value); v.K == avNonNil && strings.HasPrefix(v.Tag, "func:") {
			for fn := range r.w.allFns {
				if fnName(fn) == strings.TrimPrefix(v.Tag, "func:") {
					callee = fn
				}
			}
		}
	}
	if callee != nil && callee.Blocks != nil && r.w.InRepo(callee) && !r.spec.NoInline[shortFn(callee)] {
		res, _ := r.call(callee, args, depth+1, nil, nil)
		if r.need != "" || r.fail != "" {
			return absVal{}
		}
		if len(res) == 1 {
			return res[0]
		}
		return absVal{K: avTuple, Tuple: res}
	}
	return absVal{K: avUnknown, Tag: "call " + shortName(name)}
}

// ---- comparing with a specification ----

// dtValuations enumerates the cartesian product of the given atoms' domains.
func dtValuations(atoms []string, dom map[string][]absVal) []map[string]absVal {
	out := []map[string]absVal{{}}
	for _, a := range atoms {
		d := dom[a]
		if d == nil {
			d = []absVal{{K: avBool, B: false}, {K: avBool, B: true}}
		}
		var next []map[string]absVal
		for _, m := range out {
			for _, v := range d {
				n := map[string]absVal{}
				for k, x := range m {
					n[k] = x
				}
				n[a] = v
				next = append(next, n)
			}
		}
		out = next
	}
	return out
}

// dtMatch returns the leaves compatible with a full valuation.
func dtMatch(leaves []dtLeaf, val map[string]absVal) []dtLeaf {
	var out []dtLeaf
	for _, l := range leaves {
		ok := true
		for a, v := range l.Assign {
			if strings.HasPrefix(a, "?") {
				continue
			}
			if x, has := val[a]; has && (x.K != v.K || x.B != v.B || x.I != v.I || x.S != v.S) {
				ok = false
				break
			}
		}
		if ok {
			out = append(out, l)
		}
	}
	return out
}

// dtAtomsUsed lists the named (non-anonymous) atoms appearing in the leaves, and the anonymous ones.
func dtAtomsUsed(leaves []dtLeaf) (named, anon []string) {
	sn, sa := map[string]bool{}, map[string]bool{}
	for _, l := range leaves {
		for a := range l.Assign {
			if strings.HasPrefix(a, "?") {
				sa[a] = true
			} else {
				sn[a] = true
			}
		}
	}
	for a := range sn {
		named = append(named, a)
	}
	for a := range sa {
		anon = append(anon, a)
	}
	sort.Strings(named)
	sort.Strings(anon)
	return
}

func valString(val map[string]absVal) string {
	var ks []string
	for k := range val {
		ks = append(ks, k)
	}
	sort.Strings(ks)
	var p []string
	for _, k := range ks {
		p = append(p, k+"="+val[k].String())
	}
	return strings.Join(p, " ")
}
