package main

import (
	"go/constant"
	"go/token"
	"go/types"
	"sort"
	"strings"

	"golang.org/x/tools/go/ssa"
)

// Value-set flow of a dispatch byte (E9).
//
// A request dispatcher tests one byte (req[0]) against constants - by a switch, an if/else chain, a lookup in a
// package-level table, a predicate function over the code - and the tests may be spread over helpers. For every
// block of the dispatcher's tree the flow computes the set of byte values with which the block can be reached: a
// forward may-analysis over the lattice of subsets of 0..255, joining by union and filtering along the edges of
// every branch whose condition is a recognised test of the byte. A condition that is not recognised filters
// nothing (both edges keep the incoming set), so the sets over-approximate. The "arm" of a code is then a set,
// independent of how the dispatch is written.

type bset [4]uint64

func (s bset) has(k int64) bool { return k >= 0 && k < 256 && s[k/64]&(1<<uint(k%64)) != 0 }
func (s *bset) add(k int64) {
	if k >= 0 && k < 256 {
		s[k/64] |= 1 << uint(k%64)
	}
}
func (s bset) and(t bset) bset      { return bset{s[0] & t[0], s[1] & t[1], s[2] & t[2], s[3] & t[3]} }
func (s bset) or(t bset) bset       { return bset{s[0] | t[0], s[1] | t[1], s[2] | t[2], s[3] | t[3]} }
func (s bset) not() bset            { return bset{^s[0], ^s[1], ^s[2], ^s[3]} }
func (s bset) empty() bool          { return s == bset{} }
func (s bset) full() bool           { return s == bsetAll() }
func (s bset) subsetOf(t bset) bool { return s.and(t) == s }
func (s bset) count() int {
	n := 0
	for k := int64(0); k < 256; k++ {
		if s.has(k) {
			n++
		}
	}
	return n
}
func (s bset) list() []int64 {
	var out []int64
	for k := int64(0); k < 256; k++ {
		if s.has(k) {
			out = append(out, k)
		}
	}
	return out
}
func bsetAll() bset { return bset{^uint64(0), ^uint64(0), ^uint64(0), ^uint64(0)} }
func bsetOf(ks ...int64) bset {
	var s bset
	for _, k := range ks {
		s.add(k)
	}
	return s
}

type byteFlow struct {
	w         *World
	root      *ssa.Function
	isSubject func(v ssa.Value) bool           // v is the dispatch byte
	resets    func(ins ssa.Instruction) bool   // ins obtains a new request (the byte is unconstrained afterwards)
	in        map[*ssa.BasicBlock]bset         // set on entry of the block
	known     map[*ssa.BasicBlock]bool         // block reached by the flow
	tests     int                              // recognised tests
	Mentioned bset                             // codes named by some recognised test
	pred      map[*ssa.Function]map[int64]bool // cache: predicate functions over the code
	tables    map[*ssa.Global]*bset
}

// newByteFlow computes the flow over Tree(root).
func (w *World) newByteFlow(root *ssa.Function, isSubject func(ssa.Value) bool, resets func(ssa.Instruction) bool) *byteFlow {
	bf := &byteFlow{w: w, root: root, isSubject: isSubject, resets: resets, in: map[*ssa.BasicBlock]bset{}, known: map[*ssa.BasicBlock]bool{},
		pred: map[*ssa.Function]map[int64]bool{}, tables: map[*ssa.Global]*bset{}}
	if root == nil || len(root.Blocks) == 0 {
		return bf
	}
	tree := w.Tree(root)
	bf.in[root.Blocks[0]] = bsetAll()
	bf.known[root.Blocks[0]] = true
	for round := 0; round < 64; round++ {
		changed := false
		join := func(b *ssa.BasicBlock, s bset) {
			if s.empty() {
				return
			}
			if n := bf.in[b].or(s); n != bf.in[b] || !bf.known[b] {
				bf.in[b], bf.known[b] = n, true
				changed = true
			}
		}
		for _, g := range tree {
			if len(g.Blocks) == 0 {
				continue
			}
			if g != root {
				// entered with the sets of its call sites (a closure: with the set where it is created)
				var s bset
				if g.Parent() != nil {
					for _, f := range tree {
						for _, b := range f.Blocks {
							for _, ins := range b.Instrs {
								if mc, ok := ins.(*ssa.MakeClosure); ok && mc.Fn == ssa.Value(g) {
									s = s.or(bf.out(b))
								}
							}
						}
					}
				} else {
					for _, site := range w.sitesIn(root, g) {
						s = s.or(bf.out(site.Block()))
					}
				}
				join(g.Blocks[0], s)
			}
			for _, b := range g.Blocks {
				if !bf.known[b] {
					continue
				}
				cur := bf.out(b)
				if len(b.Succs) == 2 {
					if ifi, ok := b.Instrs[len(b.Instrs)-1].(*ssa.If); ok {
						if ts, ok := bf.condSet(ifi.Cond, 0); ok {
							join(b.Succs[0], cur.and(ts))
							join(b.Succs[1], cur.and(ts.not()))
							continue
						}
					}
				}
				for _, s := range b.Succs {
					join(s, cur)
				}
			}
		}
		if !changed {
			break
		}
	}
	return bf
}

// out: the set at the end of block b (a block that obtains a new request forgets what was known).
func (bf *byteFlow) out(b *ssa.BasicBlock) bset {
	if bf.resets != nil {
		for _, ins := range b.Instrs {
			if bf.resets(ins) {
				return bsetAll()
			}
		}
	}
	return bf.in[b]
}

// onEdge: the byte values with which control can pass from pred to succ.
func (bf *byteFlow) onEdge(pred, succ *ssa.BasicBlock) bset {
	if !bf.known[pred] {
		return bset{}
	}
	cur := bf.out(pred)
	if len(pred.Succs) == 2 && pred.Succs[0] != pred.Succs[1] {
		if ifi, ok := pred.Instrs[len(pred.Instrs)-1].(*ssa.If); ok {
			if ts, ok := bf.condSet(ifi.Cond, 0); ok {
				if pred.Succs[0] == succ {
					return cur.and(ts)
				}
				return cur.and(ts.not())
			}
		}
	}
	return cur
}

// At: the byte values with which ins can execute (empty: not reached by the flow).
func (bf *byteFlow) At(ins ssa.Instruction) bset {
	if ins == nil || ins.Block() == nil {
		return bset{}
	}
	return bf.in[ins.Block()]
}

// subject: v denotes the dispatch byte, possibly widened.
func (bf *byteFlow) subject(v ssa.Value) bool {
	for i := 0; i < 4; i++ {
		v = throughCell(strip(v))
		if bf.isSubject(v) {
			return true
		}
		if cv, ok := v.(*ssa.Convert); ok && widening(cv.X.Type(), cv.Type()) {
			v = cv.X
			continue
		}
		if p, ok := v.(*ssa.Parameter); ok {
			if u := bf.w.resolveUp(bf.root, p); u != ssa.Value(p) {
				v = u
				continue
			}
		}
		break
	}
	return false
}

// condSet: the byte values for which the boolean cond is true, when cond is a recognised test of the byte.
func (bf *byteFlow) condSet(cond ssa.Value, depth int) (bset, bool) {
	if depth > 4 {
		return bset{}, false
	}
	cond = throughCell(strip(cond))
	note := func(s bset) bset {
		bf.tests++
		small := s
		if s.count() > 128 {
			small = s.not()
		}
		bf.Mentioned = bf.Mentioned.or(small)
		return s
	}
	switch x := cond.(type) {
	case *ssa.UnOp:
		if x.Op == token.NOT {
			s, ok := bf.condSet(x.X, depth+1)
			return s.not(), ok
		}
		if x.Op == token.MUL {
			// table[byte] with table a package-level array (or slice) of booleans that is never written
			if ia, ok := x.X.(*ssa.IndexAddr); ok && bf.subject(ia.Index) {
				if t := bf.boolTable(ia.X); t != nil {
					return note(*t), true
				}
			}
		}
	case *ssa.BinOp:
		var k int64
		var isK bool
		op := x.Op
		switch {
		case bf.subject(x.X):
			k, isK = intConst(x.Y)
		case bf.subject(x.Y):
			k, isK = intConst(x.X)
			op = flipOp(op)
		default:
			return bset{}, false
		}
		if !isK {
			return bset{}, false
		}
		var s bset
		for v := int64(0); v < 256; v++ {
			hold := false
			switch op {
			case token.EQL:
				hold = v == k
			case token.NEQ:
				hold = v != k
			case token.LSS:
				hold = v < k
			case token.LEQ:
				hold = v <= k
			case token.GTR:
				hold = v > k
			case token.GEQ:
				hold = v >= k
			default:
				return bset{}, false
			}
			if hold {
				s.add(v)
			}
		}
		return note(s), true
	case *ssa.Lookup:
		// m[byte] with m a frozen map literal of booleans
		if !x.CommaOk && bf.subject(x.Index) && isBoolType(x.Type()) {
			if s, ok := bf.mapSet(x.X, true); ok {
				return note(s), true
			}
		}
	case *ssa.Extract:
		// _, ok := m[byte]
		if lk, isLk := x.Tuple.(*ssa.Lookup); isLk && lk.CommaOk && x.Index == 1 && bf.subject(lk.Index) {
			if s, ok := bf.mapSet(lk.X, false); ok {
				return note(s), true
			}
		}
	case *ssa.Call:
		// membership of the byte in a frozen list of codes
		if s, ok := bf.memberSet(x, bf.subject); ok {
			return note(s), true
		}
		// pred(byte): a repository function of the code alone
		callee := x.Call.StaticCallee()
		if callee != nil && bf.w.InRepo(callee) && len(callee.Params) == 1 && len(x.Call.Args) == 1 && bf.subject(x.Call.Args[0]) && callee.Blocks != nil {
			// ... whose one result is such a membership test of its parameter
			if rets := liveReturns(callee); len(rets) == 1 && len(rets[0].Results) == 1 {
				if inner, isCall := throughCell(strip(rets[0].Results[0])).(*ssa.Call); isCall {
					if s, ok := bf.memberSet(inner, func(v ssa.Value) bool { return throughCell(strip(v)) == ssa.Value(callee.Params[0]) }); ok {
						return note(s), true
					}
				}
			}
		}
		if callee == nil || !bf.w.InRepo(callee) || len(callee.Params) != 1 || len(x.Call.Args) != 1 || !bf.subject(x.Call.Args[0]) {
			return bset{}, false
		}
		if res := callee.Signature.Results(); res.Len() != 1 || !isBoolType(res.At(0).Type()) {
			return bset{}, false
		}
		tbl, done := bf.pred[callee]
		if !done {
			tbl = map[int64]bool{}
			okAll := true
			for v := int64(0); v < 256 && okAll; v++ {
				rs, ok := evalParamFuncW(bf.w, callee, constant.MakeInt64(v), false)
				if !ok || len(rs) != 1 {
					okAll = false
					break
				}
				b, isB := boolConst(rs[0])
				if !isB {
					okAll = false
					break
				}
				tbl[v] = b
			}
			if !okAll {
				tbl = nil
			}
			bf.pred[callee] = tbl
		}
		if tbl == nil {
			return bset{}, false
		}
		var s bset
		for v, b := range tbl {
			if b {
				s.add(v)
			}
		}
		return note(s), true
	}
	return bset{}, false
}

// boolTable: x is (a load of / the address of) a package-level [N]bool or []bool initialised by a literal and never
// written afterwards; returns the indices holding true.
func (bf *byteFlow) boolTable(x ssa.Value) *bset {
	var g *ssa.Global
	switch v := x.(type) {
	case *ssa.Global:
		g = v
	case *ssa.UnOp:
		g, _ = v.X.(*ssa.Global)
	}
	if g == nil || g.Pkg == nil {
		return nil
	}
	if t, ok := bf.tables[g]; ok {
		return t
	}
	bf.tables[g] = nil
	et := g.Type().(*types.Pointer).Elem().Underlying()
	var elem types.Type
	switch t := et.(type) {
	case *types.Array:
		elem = t.Elem()
	case *types.Slice:
		elem = t.Elem()
	}
	if elem == nil || !isBoolType(elem) || !bf.w.globalFrozen(g) {
		return nil
	}
	// element stores: only in the package initialiser, with constant index and value
	var s bset
	for _, fn := range bf.w.repoFns {
		for _, b := range fn.Blocks {
			for _, ins := range b.Instrs {
				ia, ok := ins.(*ssa.IndexAddr)
				if !ok {
					continue
				}
				base := ia.X
				if ld, isLd := base.(*ssa.UnOp); isLd {
					base = ld.X
				}
				if base != ssa.Value(g) {
					// a slice literal: the global holds a slice of a hidden array; not followed
					continue
				}
				for _, r := range *ia.Referrers() {
					st, isSt := r.(*ssa.Store)
					if !isSt || st.Addr != ssa.Value(ia) {
						continue
					}
					k, isK := intConst(ia.Index)
					v, isB := boolConst(st.Val)
					if fn.Name() != "init" || !isK || !isB {
						return nil
					}
					if v {
						s.add(k)
					}
				}
			}
		}
	}
	if _, isArr := et.(*types.Array); !isArr {
		return nil // a slice's backing array is initialised through a hidden variable: not modelled
	}
	bf.tables[g] = &s
	return &s
}

// mapSet: the keys of the frozen package-level map literal m (boolVals: those mapped to true).
func (bf *byteFlow) mapSet(m ssa.Value, boolVals bool) (bset, bool) {
	ld, ok := m.(*ssa.UnOp)
	if !ok {
		return bset{}, false
	}
	g, ok := ld.X.(*ssa.Global)
	if !ok || !bf.w.globalFrozen(g) {
		return bset{}, false
	}
	entries, ok := bf.w.mapLiteralEntries(g)
	if !ok {
		return bset{}, false
	}
	var s bset
	for _, e := range entries {
		k, isInt := constant.Int64Val(constant.ToInt(e.Key))
		if !isInt {
			return bset{}, false
		}
		if boolVals {
			if len(e.Vals) != 1 {
				return bset{}, false
			}
			b, isB := boolConst(e.Vals[0])
			if !isB {
				return bset{}, false
			}
			if !b {
				continue
			}
		}
		s.add(k)
	}
	return s, true
}

// effectful: the block does something besides computing branch conditions.
func effectful(b *ssa.BasicBlock) bool {
	for _, ins := range b.Instrs {
		switch x := ins.(type) {
		case *ssa.Call:
			if bi, ok := x.Call.Value.(*ssa.Builtin); ok && (bi.Name() == "len" || bi.Name() == "cap") {
				continue
			}
			return true
		case *ssa.Go, *ssa.Defer, *ssa.Store, *ssa.MapUpdate, *ssa.Send, *ssa.Panic:
			return true
		}
	}
	return false
}

// armSets: the distinct proper sets of the effectful blocks of the tree, sorted by size then content.
// pureHelper: g only computes a value from its arguments - every call goes to a formatting / conversion function of
// the standard library (or a builtin), nothing is stored outside its own locals, nothing is deferred, sent or
// started. A code-to-name function for log lines is of this kind: its branches are not arms of the dispatch.
func pureHelper(g *ssa.Function) bool {
	if g.Parent() != nil || len(g.Blocks) == 0 {
		return false
	}
	for _, b := range g.Blocks {
		for _, ins := range b.Instrs {
			switch x := ins.(type) {
			case *ssa.Go, *ssa.Defer, *ssa.Send, *ssa.MapUpdate, *ssa.Panic, *ssa.RunDefers:
				return false
			case *ssa.Store:
				if _, isAlloc := x.Addr.(*ssa.Alloc); !isAlloc {
					if ia, isIA := x.Addr.(*ssa.IndexAddr); isIA {
						if _, isAlloc := ia.X.(*ssa.Alloc); isAlloc {
							continue // an element of a local array (variadic arguments)
						}
					}
					return false
				}
			case *ssa.Call:
				if x.Call.IsInvoke() {
					return false
				}
				n := calleeName(x)
				okCall := strings.HasPrefix(n, "builtin:") || strings.HasPrefix(n, "strconv.") || strings.HasPrefix(n, "strings.") || strings.HasPrefix(n, "bytes.") ||
					n == "fmt.Sprintf" || n == "fmt.Sprint" || strings.HasPrefix(n, "encoding/hex.") || strings.HasPrefix(n, "unicode")
				if !okCall {
					return false
				}
			}
		}
	}
	return true
}

func (bf *byteFlow) armSets() []bset {
	seen := map[bset]bool{}
	var out []bset
	for _, g := range bf.w.Tree(bf.root) {
		if g != bf.root && pureHelper(g) {
			continue
		}
		for _, b := range g.Blocks {
			s := bf.in[b]
			if !bf.known[b] || s.empty() || s.full() || seen[s] || !effectful(b) {
				continue
			}
			seen[s] = true
			out = append(out, s)
		}
	}
	sort.Slice(out, func(i, j int) bool {
		if ci, cj := out[i].count(), out[j].count(); ci != cj {
			return ci < cj
		}
		for k := 0; k < 4; k++ {
			if out[i][k] != out[j][k] {
				return out[i][k] < out[j][k]
			}
		}
		return false
	})
	return out
}

// minimalFor: the inclusion-minimal arm sets containing code k.
func minimalFor(sets []bset, k int64) []bset {
	var out []bset
	for _, s := range sets {
		if !s.has(k) {
			continue
		}
		min := true
		for _, t := range sets {
			if t != s && t.has(k) && t.subsetOf(s) {
				min = false
			}
		}
		if min {
			out = append(out, s)
		}
	}
	return out
}

// sliceLiteralSet: g is a package-level slice of integers (bytes) set once, in the package initialiser, to a literal of
// constants, whose elements nothing writes afterwards (the slice is only read, ranged over, measured, or handed to the
// read-only library searches); returns the set of its elements.
func (bf *byteFlow) sliceLiteralSet(g *ssa.Global) (bset, bool) {
	if g == nil || g.Pkg == nil {
		return bset{}, false
	}
	sl, ok := g.Type().(*types.Pointer).Elem().Underlying().(*types.Slice)
	if !ok {
		return bset{}, false
	}
	if b, ok := sl.Elem().Underlying().(*types.Basic); !ok || b.Info()&types.IsInteger == 0 {
		return bset{}, false
	}
	init := g.Pkg.Func("init")
	if init == nil {
		return bset{}, false
	}
	var backing *ssa.Alloc
	readOnly := map[string]bool{"slices.Contains": true, "slices.Index": true, "bytes.IndexByte": true, "bytes.Contains": true, "builtin:len": true, "builtin:cap": true}
	for _, fn := range bf.w.repoFns {
		for _, b := range fn.Blocks {
			for _, ins := range b.Instrs {
				switch x := ins.(type) {
				case *ssa.Store:
					if x.Addr == ssa.Value(g) {
						s, isSl := x.Val.(*ssa.Slice)
						if fn != init || !isSl || backing != nil {
							return bset{}, false
						}
						a, isA := s.X.(*ssa.Alloc)
						if !isA || s.Low != nil || s.High != nil {
							return bset{}, false
						}
						backing = a
					}
					if x.Val == ssa.Value(g) {
						return bset{}, false
					}
				case *ssa.UnOp:
					if x.X != ssa.Value(g) || x.Referrers() == nil {
						continue
					}
					for _, r := range *x.Referrers() {
						switch u := r.(type) {
						case *ssa.IndexAddr:
							for _, rr := range *u.Referrers() {
								if st, isSt := rr.(*ssa.Store); isSt && st.Addr == ssa.Value(u) {
									return bset{}, false
								}
								if _, isLd := rr.(*ssa.UnOp); !isLd {
									if _, isDbg := rr.(*ssa.DebugRef); !isDbg {
										return bset{}, false
									}
								}
							}
						case *ssa.Range, *ssa.DebugRef:
						case ssa.CallInstruction:
							if !readOnly[strings.SplitN(calleeName(u), "[", 2)[0]] {
								return bset{}, false
							}
						default:
							return bset{}, false
						}
					}
				case ssa.CallInstruction:
					for _, a := range x.Common().Args {
						if a == ssa.Value(g) {
							return bset{}, false
						}
					}
				}
			}
		}
	}
	if backing == nil || backing.Referrers() == nil {
		return bset{}, false
	}
	var s bset
	n := 0
	for _, r := range *backing.Referrers() {
		switch u := r.(type) {
		case *ssa.IndexAddr:
			for _, rr := range *u.Referrers() {
				st, isSt := rr.(*ssa.Store)
				if !isSt || st.Addr != ssa.Value(u) {
					return bset{}, false
				}
				v, isK := intConst(st.Val)
				if _, isIdx := intConst(u.Index); !isK || !isIdx || v < 0 || v > 255 {
					return bset{}, false
				}
				s.add(v)
				n++
			}
		case *ssa.Slice, *ssa.DebugRef:
		default:
			return bset{}, false
		}
	}
	if arr, ok := backing.Type().(*types.Pointer).Elem().Underlying().(*types.Array); !ok || int64(n) != arr.Len() {
		return bset{}, false // an element left at zero would be a member too: only fully spelled literals
	}
	return s, true
}

// memberSet: cond is slices.Contains(<frozen literal of codes>, <the byte>) - directly or as the single result of a
// predicate function of the byte.
func (bf *byteFlow) memberSet(cv *ssa.Call, subject func(ssa.Value) bool) (bset, bool) {
	if !strings.HasPrefix(calleeName(cv), "slices.Contains") || strings.HasPrefix(calleeName(cv), "slices.ContainsFunc") || len(cv.Call.Args) != 2 || !subject(cv.Call.Args[1]) {
		return bset{}, false
	}
	ld, ok := throughCell(strip(cv.Call.Args[0])).(*ssa.UnOp)
	if !ok || ld.Op != token.MUL {
		return bset{}, false
	}
	g, ok := ld.X.(*ssa.Global)
	if !ok {
		return bset{}, false
	}
	return bf.sliceLiteralSet(g)
}
