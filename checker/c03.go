package main

import (
	"go/constant"
	"go/token"
	"go/types"
	"strings"

	"golang.org/x/tools/go/ssa"
)

func init() {
	register(&property{
		ID: "C03",
		Meta: propMeta{
			Level:       "Structural necessary conditions of 'provisioned credentials are key-bound, ephemeral and non-destructive': (R1) every identity added to the agent by the certificate step is a copy of the constructor's added-key record (its private key and lifetime have one writer, the constructor: private key = the freshly generated one, lifetime = the option) with only Certificate and Comment changed, the certificate being the cast of the ranged CA answer under the must-facts non-nil and no cast error, over a full forward range of the CA's answers whose only skip is the failed cast; (R2) for each handler the agent lifetime is conv(configured validity) + K with a constant K >= 0, from the same configuration value as the request's validity, and the default lifetime is a non-zero constant; (R3) the refresh step removes an identity only under the must-fact that the handler's filter accepted it, over this activation's listing; no RemoveAll is invoked in the provisioning packages; the handler's filter is a case-sensitive substring test of the identity's comment against the handler-name constant, which the configured certificate label contains; (R4) the refresh step dominates every certificate add and its error is returned; nothing on the Generate tree removes identities. That the agent honours lifetimes and that a stored certificate can sign are not decided.",
			Technique:   "static analysis: field-writer census, value-flow of struct copies, must-fact gating, linear form of the lifetime expression on go/ssa",
			Explanation: "The agent-key type is the repository type implementing csr.AgentKey's AddCertsToAgent; its added-key record, option record and agent fields are resolved by type.",
			Assumptions: []string{"the agent enforces the lifetime constraint", "validity <= 2^32-1-K (ten years fits)"},
			Trusted:     []string{"go/packages", "go/types", "go/ssa", "golang.org/x/crypto/ssh/agent"},
			RuleDoc: map[string]string{
				"R9.state":    "no memory of earlier calls: on the call tree only frozen package-level variables are touched (known exceptions listed with reasons), and no package-level object is handed out",
				"R1.keybound": "added identities carry the constructor's private key and lifetime; certificate from the CA answer; full range",
				"R2.lifetime": "agent lifetime = validity + K, K >= 0; default lifetime non-zero",
				"R3.refresh":  "removal only under the handler's filter; no RemoveAll; filter = substring of the handler name; label contains it",
				"R4.order":    "refresh dominates the adds; nothing on the Generate tree removes identities",
			},
		},
		Run: runC03,
	})
}

func runC03(c *Ctx) {
	stateRule(c, "R9.state", []*ssa.Function{c.w.Method("agent/ssh", "AgentKey", "AddCertsToAgent"), c.w.Func("agent/ssh", "NewSSHAgentKeyWithOpt"), c.w.Method("gensign/regular", "Handler", "Generate")}, knownState)
	w := c.w
	ak := w.NamedType("agent/ssh", "AgentKey")
	add := w.Method("agent/ssh", "AgentKey", "AddCertsToAgent")
	ctor := w.Func("agent/ssh", "NewSSHAgentKeyWithOpt")
	if ak == nil || add == nil || ctor == nil {
		c.Unresolved("R1.keybound", "agent/ssh.AgentKey, its AddCertsToAgent and constructor")
		return
	}
	c.Saw(add)
	c.Saw(ctor)
	// the certificates handed to AddCertsToAgent are all the CA returned: the parser of the CA's answer does not stop early
	if gp := w.Func("sshutils/key", "GetPublicKeysFromBytes"); gp != nil {
		c.Saw(gp)
		scannerRule(c, "R1.keybound", gp, "the CA's answer is")
	} else {
		c.Unresolved("R1.keybound", "sshutils/key.GetPublicKeysFromBytes")
	}
	// fields by type
	var fAdded, fOpt, fAgent string
	st := ak.Underlying().(*types.Struct)
	for i := 0; i < st.NumFields(); i++ {
		ts := st.Field(i).Type().String()
		switch {
		case strings.HasSuffix(ts, "ssh/agent.AddedKey"):
			fAdded = st.Field(i).Name()
		case strings.HasSuffix(ts, "agent/ssh.KeyOpt"):
			fOpt = st.Field(i).Name()
		case strings.HasSuffix(ts, "ssh/agent.Agent") || strings.HasSuffix(ts, "ssh/agent.ExtendedAgent"):
			fAgent = st.Field(i).Name()
		}
	}
	if fAdded == "" || fOpt == "" || fAgent == "" {
		c.Unresolved("R1.keybound", "added-key / option / agent fields of AgentKey")
		return
	}
	f := w.Facts(add)

	// ---- R1 ----
	// the refresh call
	var refresh *ssa.Call
	for _, call := range callsIn(add) {
		if cv, ok := call.(*ssa.Call); ok {
			if callee := cv.Call.StaticCallee(); callee != nil && recvNamed(callee) == ak && w.Expr(cv.Call.Args[0]) == "p0" && errorResultIndex(callee) >= 0 && len(w.invokeOfDeep(callee, "Remove")) > 0 {
				refresh = cv
			}
			// ... or a function of the package given the key's agent, in whose tree identities are removed
			if callee := cv.Call.StaticCallee(); refresh == nil && callee != nil && w.InRepo(callee) && callee.Blocks != nil && callee.Signature.Recv() == nil &&
				callee.Signature.Results().Len() == 1 && errorResultIndex(callee) == 0 && len(w.invokeOfDeep(callee, "Remove")) > 0 {
				for _, a := range cv.Call.Args {
					if w.Expr(a) == "p0."+fAgent {
						refresh = cv
					}
				}
			}
		}
	}
	// the error the refresh step reports: the call itself, or its error component
	var refreshErr ssa.Value
	if refresh != nil {
		refreshErr = refresh
		if callee := refresh.Call.StaticCallee(); callee != nil && callee.Signature.Results().Len() > 1 {
			refreshErr = extractOf(refresh, errorResultIndex(callee))
		}
	}
	nAdd := 0
	for _, cv := range invokeOf(add, "Add") {
		if w.Expr(cv.Call.Value) != "p0."+fAgent {
			continue
		}
		nAdd++
		arg := cv.Call.Args[0]
		ld, ok := arg.(*ssa.UnOp)
		var local *ssa.Alloc
		if ok && ld.Op == token.MUL {
			local, _ = ld.X.(*ssa.Alloc)
		}
		// copyOfRecord: v is the constructor's record (a.addedKey), directly or through a local that only ever held a copy of it
		copyOfRecord := func(v ssa.Value) bool {
			v = throughCell(strip(v))
			if w.Expr(v) != "p0."+fAdded {
				return false
			}
			if l2, ok := v.(*ssa.UnOp); ok && l2.Op == token.MUL {
				if a2, ok := l2.X.(*ssa.Alloc); ok {
					return len(FieldStores(add, a2)) == 0
				}
			}
			return true
		}
		var fs map[string][]ssa.Value
		if local == nil {
			// the copy made and filled by a helper that takes the record by value and returns it:
			// identity := certIdentity(template, cert, label)
			okHelper := false
			if hc, isCall := arg.(*ssa.Call); isCall {
				if h := w.helperOf(hc); h != nil && len(hc.Call.Args) == len(h.Params) {
					rets := liveReturns(h)
					if len(rets) == 1 && len(rets[0].Results) == 1 {
						if rl, ok := rets[0].Results[0].(*ssa.UnOp); ok && rl.Op == token.MUL {
							if hl, ok := rl.X.(*ssa.Alloc); ok {
								var src *ssa.Parameter
								n := 0
								for _, r := range *hl.Referrers() {
									if st, ok := r.(*ssa.Store); ok && st.Addr == ssa.Value(hl) {
										n++
										src, _ = st.Val.(*ssa.Parameter)
									}
								}
								if n == 1 && src != nil && copyOfRecord(hc.Call.Args[paramIndex(src)]) {
									okHelper = true
									fs = map[string][]ssa.Value{}
									for fld, vals := range FieldStores(h, hl) {
										for _, v := range vals {
											if p, isP := v.(*ssa.Parameter); isP && paramIndex(p) < len(hc.Call.Args) {
												v = hc.Call.Args[paramIndex(p)]
											}
											fs[fld] = append(fs[fld], v)
										}
									}
								}
							}
						}
					}
				}
			}
			c.Check(okHelper, "R1.keybound", "AddCertsToAgent|added record is a copy of the constructor's", w.Pos(cv.Pos()), "a by-value copy of a.addedKey filled by a helper", "the identity handed to the agent is not a local copy of the key record: "+w.Short(arg))
			if !okHelper {
				continue
			}
		} else {
			// whole-variable stores: exactly the receiver's record
			whole := true
			nWhole := 0
			if refs := local.Referrers(); refs != nil {
				for _, r := range *refs {
					if s, ok := r.(*ssa.Store); ok && s.Addr == ssa.Value(local) {
						nWhole++
						if w.Expr(s.Val) != "p0."+fAdded {
							whole = false
						}
					}
				}
			}
			c.Check(whole && nWhole == 1, "R1.keybound", "AddCertsToAgent|added record is a copy of the constructor's", w.Pos(cv.Pos()), "addedKey := a.addedKey", "the identity handed to the agent does not start as a copy of the record built by the constructor")
			fs = FieldStores(add, local)
		}
		for fld := range fs {
			okF := fld == "Certificate" || fld == "Comment"
			c.Check(okF, "R1.keybound", "AddCertsToAgent|copy changes "+fld, w.Pos(cv.Pos()), "only Certificate / Comment differ from the constructor's record", "the copy's "+fld+" is overwritten: the identity no longer carries the generated private key / its lifetime")
		}
		// certificate: cast of the ranged element of the certs parameter
		var cast *ssa.Call
		if vs := fs["Certificate"]; len(vs) == 1 {
			if ex, ok := vs[0].(*ssa.Extract); ok && ex.Index == 0 {
				if cc, ok := ex.Tuple.(*ssa.Call); ok && strings.HasSuffix(calleeName(cc), "sshutils/key.CastSSHPublicKeyToCertificate") {
					if el, ok := cc.Call.Args[0].(*ssa.UnOp); ok {
						if ia, ok := el.X.(*ssa.IndexAddr); ok && w.Expr(ia.X) == "p1" && isForwardRangeIndex(ia.Index) {
							cast = cc
						}
					}
				}
			}
		}
		c.Check(cast != nil, "R1.keybound", "AddCertsToAgent|certificate is the CA's i-th answer", w.Pos(cv.Pos()), "cast(certs[i]) over a forward range", "the certificate stored with the key is not the cast of the ranged CA answer")
		if cast != nil {
			isNil, known := f.KnownNil(cv.Block(), extractOf(cast, 1))
			c.Check(known && isNil, "R1.keybound", "AddCertsToAgent|add only after a successful cast", w.Pos(cv.Pos()), "must-fact cast err == nil", "an identity can be added although the cast failed")
			// the only skip in the loop is the failed cast: facts at the Add beyond the loop condition concern the cast only
			extra := ""
			for l := range f.Primary(cv.Block()) {
				ex := w.Short(l.V)
				if strings.Contains(ex, "CastSSHPublicKeyToCertificate") || strings.Contains(ex, ".Certificate") {
					continue
				}
				if bin, ok := l.V.(*ssa.BinOp); ok && bin.Op == token.LSS && isForwardRangeIndex(bin.X) {
					continue
				}
				if refresh != nil {
					if y, _, ok := nilTest(l); ok && (strip(y) == ssa.Value(refresh) || (refreshErr != nil && strip(y) == refreshErr)) {
						continue
					}
				}
				extra = ex
			}
			c.Check(extra == "", "R1.keybound", "AddCertsToAgent|every CA answer is added", w.Pos(cv.Pos()), "the only skip is a failed cast", "adding a certificate additionally depends on "+extra)
		}
	}
	c.Floor("R1.keybound", nAdd, 1, "agent.Add in AddCertsToAgent")
	// success only after the whole range over the CA's answers
	for _, r := range w.MayBeNilReturns(add) {
		if add.Recover != nil && r.Block() == add.Recover {
			continue
		}
		done := f.Any(r.Block(), func(l Lit) bool {
			bin, ok := l.V.(*ssa.BinOp)
			if !ok || bin.Op != token.LSS || l.Pol {
				return false
			}
			la := lenArg(bin.Y)
			return la != nil && w.Expr(la) == "p1" && isForwardRangeIndex(bin.X)
		})
		c.Check(done, "R1.keybound", "AddCertsToAgent|success only after every CA answer was handled", w.Pos(r.Pos()), "must-fact: range over certs exhausted", "the certificate step can report success before all returned certificates were added")
	}
	// single writer of the record's PrivateKey / LifetimeSecs: the constructor
	nRecW := 0
	for _, a := range w.FieldAccesses(ak, fAdded) {
		switch a.Kind {
		case "write":
			nRecW++
			c.Check(a.Fn == ctor, "R1.keybound", "key record writer "+shortFn(a.Fn), w.Pos(a.Instr.Pos()), "constructor", "the key record is replaced outside the constructor")
		case "read":
			// nested field address: stores through it
			if fa, ok := a.Instr.(*ssa.FieldAddr); ok {
				name := fieldName(fa.X.Type(), fa.Field)
				if refs := fa.Referrers(); refs != nil {
					for _, r := range *refs {
						if s, ok := r.(*ssa.Store); ok && s.Addr == ssa.Value(fa) {
							okF := name == "Comment"
							c.Check(okF, "R1.keybound", "key record field "+name+" written in "+shortFn(a.Fn), w.Pos(s.Pos()), "only the comment may change after construction", "the key record's "+name+" is overwritten after construction")
						}
					}
				}
			}
		case "addr", "addrcall":
			c.Bad("R1.keybound", "key record address escapes in "+shortFn(a.Fn), w.Pos(a.Instr.Pos()), "the key record can be modified through an escaped address")
		}
	}
	c.Check(nRecW == 1, "R1.keybound", "key record|single writer", "-", "one writer", itoa(nRecW)+" writers")
	// constructor's record
	var gcall *ssa.Call
	for _, call := range callsIn(ctor) {
		if strings.HasSuffix(calleeName(call), "sshutils/key.GenerateKeyPair") {
			gcall, _ = call.(*ssa.Call)
		}
	}
	okPriv, okLife := false, false
	w.Focus(ctor)
	for _, a := range w.allocsOfDeep(ctor, "ssh/agent.AddedKey") {
		fs := w.FieldStoresDeep(ctor, a)
		if vs := fs["PrivateKey"]; len(vs) == 1 && gcall != nil && (strip(vs[0]) == extractOf(gcall, 0) || w.canon(ctor, vs[0]) == extractOf(gcall, 0)) {
			okPriv = true
		}
		if vs := fs["LifetimeSecs"]; len(vs) == 1 && w.Expr(vs[0]) == "p1.PrivateKeyValiditySec" {
			okLife = true
		}
		// the same record is added to the agent (private key) and kept
		for _, cv := range invokeOf(ctor, "Add") {
			if ld, ok := cv.Call.Args[0].(*ssa.UnOp); ok && ld.X == ssa.Value(a) {
				c.Ok("R1.keybound", "constructor|private key inserted with that record", w.Pos(cv.Pos()), "agent.Add(addedKey)")
			}
		}
	}
	c.Check(okPriv, "R1.keybound", "constructor|record holds the generated private key", w.FnPos(ctor), "PrivateKey = result 0 of GenerateKeyPair", "the key record does not hold the freshly generated private key")
	c.Check(okLife, "R1.keybound", "constructor|record lifetime from the option", w.FnPos(ctor), "LifetimeSecs = opt.PrivateKeyValiditySec", "the key record's agent lifetime is not the option's value (0 means: never expires)")

	// ---- R2 ----
	m := resolveGensign(w)
	for _, h := range m.Handlers {
		pkgPath := strings.TrimPrefix(h.Obj().Pkg().Path(), RepoMod+"/")
		for _, fn := range w.FuncsOfPkg(pkgPath) {
			for _, b := range fn.Blocks {
				for _, ins := range b.Instrs {
					s, ok := ins.(*ssa.Store)
					if !ok {
						continue
					}
					fa, ok := s.Addr.(*ssa.FieldAddr)
					if !ok || fieldName(fa.X.Type(), fa.Field) != "PrivateKeyValiditySec" {
						continue
					}
					c.Saw(fn)
					// conv(conf.CertValiditySec) + K
					okForm := false
					detail := w.Short(s.Val)
					if bin, ok := s.Val.(*ssa.BinOp); ok && bin.Op == token.ADD {
						for _, pair := range [][2]ssa.Value{{bin.X, bin.Y}, {bin.Y, bin.X}} {
							k, isK := intConst(pair[1])
							if !isK {
								// uint32(time.Hour.Seconds()): a constant duration converted to seconds
								if cv2, ok := pair[1].(*ssa.Convert); ok {
									if sc, ok := cv2.X.(*ssa.Call); ok && calleeName(sc) == "(time.Duration).Seconds" {
										if d, ok := intConst(sc.Call.Args[0]); ok {
											k, isK = d/1000000000, true
										}
									}
								}
							}
							fromConf := func(v ssa.Value) bool {
								ex := w.ExprIn(fn, v)
								if strings.HasSuffix(ex, ".CertValiditySec") && strings.HasPrefix(ex, "p0.") {
									return true
								}
								// handed in by the handler method that builds the options: every call passes the configured validity
								p, isParam := v.(*ssa.Parameter)
								sites := w.callSites(fn)
								if !isParam || len(sites) == 0 {
									return false
								}
								for _, st := range sites {
									a := st.Common().Args
									i := paramIndex(p)
									if i < 0 || i >= len(a) {
										return false
									}
									ax := w.ExprIn(st.Parent(), a[i])
									if !(strings.HasSuffix(ax, ".CertValiditySec") && strings.HasPrefix(ax, "p0.")) {
										return false
									}
								}
								return true
							}
							if cv, isConv := pair[0].(*ssa.Convert); isConv && isK && k >= 0 && fromConf(cv.X) {
								okForm = true
								detail = "validity + " + itoa(int(k))
							}
						}
					}
					c.Check(okForm, "R2.lifetime", shortFn(fn)+"|agent lifetime = configured validity + K, K >= 0", w.Pos(s.Pos()), detail, "the agent lifetime is not the configured certificate validity plus a non-negative constant: "+detail)
				}
			}
		}
	}
	if p := w.ByPath[RepoMod+"/agent/ssh"]; p != nil {
		ok := false
		if cl := varInit(p, "DefaultKeyOpt"); cl != nil {
			if ents, isLit := structLitFields(p, cl); isLit {
				if v := ents["PrivateKeyValiditySec"]; v != nil {
					if i, exact := constant.Int64Val(constant.ToInt(v)); exact && i > 0 {
						ok = true
					}
				}
			}
		}
		c.Check(ok, "R2.lifetime", "DefaultKeyOpt|default lifetime is a non-zero constant", "-", "non-zero", "the default agent lifetime is zero or not a constant (zero = no expiry in the agent protocol)")
	}

	// ---- R3 ----
	var refreshFn *ssa.Function
	if refresh != nil {
		refreshFn = refresh.Call.StaticCallee()
	}
	if refreshFn == nil {
		c.Bad("R4.order", "AddCertsToAgent|refresh step", w.FnPos(add), "the certificate step no longer refreshes (removes) the handler's previous certificates")
	} else {
		c.Saw(refreshFn)
		rf := w.Facts(refreshFn)
		var list *ssa.Call
		w.Focus(refreshFn)
		for _, cv := range w.invokeOfDeep(refreshFn, "List") {
			list = cv
		}
		nRem := 0
		for _, cv := range w.invokeOfDeep(refreshFn, "Remove") {
			nRem++
			// k = element of this activation's listing
			okK := false
			var elem ssa.Value
			if list != nil {
				arg0 := strip(cv.Call.Args[0])
				if p, isParam := arg0.(*ssa.Parameter); isParam {
					// the removal sits in a helper or in a callback: the argument it was given
					arg0 = strip(w.resolveUp(refreshFn, p))
				}
				if ld, ok := arg0.(*ssa.UnOp); ok {
					if ia, ok := ld.X.(*ssa.IndexAddr); ok && ia.X == extractOf(list, 0) && isForwardRangeIndex(ia.Index) {
						okK = true
						elem = ld
					}
				}
			}
			c.Check(okK, "R3.refresh", "refresh|removes identities of this activation's listing", w.Pos(cv.Pos()), "k ranges over a.agent.List()", "the identity removed is not an element of the listing just obtained: "+w.Short(cv.Call.Args[0]))
			okFilter := rf.Any(cv.Block(), func(l Lit) bool {
				fc, ok := l.V.(*ssa.Call)
				if !ok || !l.Pol {
					return false
				}
				fex := w.Expr(fc.Call.Value)
				if p, isParam := throughCell(strip(fc.Call.Value)).(*ssa.Parameter); isParam && p.Parent() == refreshFn {
					// the filter handed to the refresh function by the certificate step
					if i := paramIndex(p); i >= 0 && i < len(refresh.Call.Args) {
						fex = w.ExprIn(add, refresh.Call.Args[i])
					}
				}
				if !strings.HasSuffix(fex, "."+fOpt+".KeyRefreshFilter") {
					return false
				}
				return len(fc.Call.Args) == 1 && elem != nil && fc.Call.Args[0] == elem
			})
			c.Check(okFilter, "R3.refresh", "refresh|removal only when the handler's filter accepts the identity", w.Pos(cv.Pos()), "must-fact opt.KeyRefreshFilter(k) == true", "an identity can be removed without the must-fact that the handler's filter selected that very identity")
			// a refused removal fails the refresh (otherwise the old generation stays next to the new one and the run
			// still reports success)
			ends := w.ErrEdgeEnds(refreshFn, ssa.Value(cv))
			if g := cv.Parent(); !ends && g != refreshFn {
				// in a helper / callback: the error ends it (or is handed straight back) and its failure ends the refresh
				direct := false
				if idx := errorResultIndex(g); idx >= 0 {
					direct = true
					reach := ReachableAvoiding(cv, nil)
					n := 0
					for _, r := range liveReturns(g) {
						if !reach(r) {
							continue
						}
						n++
						if idx >= len(r.Results) || throughCell(strip(r.Results[idx])) != ssa.Value(cv) {
							direct = false
						}
					}
					direct = direct && n > 0
				}
				ends = (direct || w.ErrEdgeEnds(g, ssa.Value(cv))) && w.failurePropagates(refreshFn, g)
			}
			c.Check(ends, "R3.refresh", "refresh|a failed removal fails the refresh", w.Pos(cv.Pos()), "wherever Remove's error is non-nil control only reaches returns of a non-nil error", "the error of agent.Remove is dropped or only logged: an identity the agent refused to remove stays while the run goes on to add the new generation")
		}
		c.Floor("R3.refresh", nRem, 1, "agent.Remove in the refresh step")
		c.Check(len(invokeOf(refreshFn, "RemoveAll")) == 0, "R3.refresh", "refresh|no RemoveAll", w.FnPos(refreshFn), "none", "the refresh step wipes the whole agent")
	}
	// no RemoveAll in the provisioning packages
	nRA := 0
	for _, fn := range w.RepoFuncs() {
		root := fn
		for root.Parent() != nil {
			root = root.Parent()
		}
		if root.Pkg == nil {
			continue
		}
		pp := root.Pkg.Pkg.Path()
		if pp != RepoMod+"/agent/ssh" && !strings.HasPrefix(pp, RepoMod+"/gensign") && pp != RepoMod+"/cmd/gensign" {
			continue
		}
		for _, cv := range invokeOf(fn, "RemoveAll") {
			nRA++
			c.Bad("R3.refresh", shortFn(fn)+"|RemoveAll", w.Pos(cv.Pos()), "a provisioning package removes ALL identities of the requester's agent")
		}
	}
	if nRA == 0 {
		c.Ok("R3.refresh", "provisioning packages|no RemoveAll", "-", "census over agent/ssh, gensign, gensign/*, cmd/gensign")
	}
	// handler filters
	for _, h := range m.Handlers {
		pkgPath := strings.TrimPrefix(h.Obj().Pkg().Path(), RepoMod+"/")
		p := w.ByPath[h.Obj().Pkg().Path()]
		name := ""
		if p != nil {
			if o, ok := p.Types.Scope().Lookup("HandlerName").(*types.Const); ok && o.Val().Kind() == constant.String {
				name = constant.StringVal(o.Val())
			}
		}
		var filterFn *ssa.Function
		label, varLabel := "", ""
		for _, fn := range w.FuncsOfPkg(pkgPath) {
			for _, b := range fn.Blocks {
				for _, ins := range b.Instrs {
					s, ok := ins.(*ssa.Store)
					if !ok {
						continue
					}
					fa, ok := s.Addr.(*ssa.FieldAddr)
					if !ok {
						continue
					}
					if T := derefNamedT(fa.X.Type()); T == nil || T.Obj().Pkg() == nil || !strings.HasSuffix(T.Obj().Pkg().Path(), "agent/ssh") {
						continue // not the agent-key options
					}
					switch fieldName(fa.X.Type(), fa.Field) {
					case "KeyRefreshFilter":
						if ff, ok := strip(s.Val).(*ssa.Function); ok {
							filterFn = ff
						}
					case "CertLabel":
						// every value the label can take: one that is not a constant (a configured label) is one the
						// refresh filter is not known to match
						if l := sprintfConst(w, s.Val); l == "" || (label != "" && !strings.Contains(l, name)) {
							varLabel = w.Pos(s.Pos())
							if l != "" {
								label = l
							}
						} else {
							label = l
						}
					}
				}
			}
		}
		hn := h.Obj().Pkg().Name() + "." + h.Obj().Name()
		if varLabel != "" {
			c.Bad("R3.refresh", hn+"|certificate label contains the handler name", varLabel, "the label put on provisioned certificates can be a value that is not a constant containing the handler name (a configured label): the refresh filter, which looks for the handler name, will not find and replace such certificates")
		}
		var filterEnv map[*ssa.FreeVar]ssa.Value
		if filterFn == nil {
			// the options are built by option methods / a constructor: read the two fields off the value handed to
			// the agent-key constructor
			for _, fn := range w.FuncsOfPkg(pkgPath) {
				for _, call := range callsIn(fn) {
					cv, ok := call.(*ssa.Call)
					if !ok || cv.Call.IsInvoke() {
						continue
					}
					for _, a := range cv.Call.Args {
						T := derefNamedT(a.Type())
						if T == nil || T.Obj().Pkg() == nil || !strings.HasSuffix(T.Obj().Pkg().Path(), "agent/ssh") || a.Type() != types.Type(T) {
							continue
						}
						if _, isStruct := T.Underlying().(*types.Struct); !isStruct {
							continue
						}
						if callee := cv.Call.StaticCallee(); callee == nil || callee.Pkg == nil || !strings.HasSuffix(callee.Pkg.Pkg.Path(), "agent/ssh") || callee.Signature.Recv() != nil {
							continue
						}
						if fv, fctx := w.fieldVal(a, "KeyRefreshFilter", nil, 0); fv != nil {
							filterFn, filterEnv = w.filterFuncOf(fv, fctx, 0)
						}
						if lv, lctx := w.fieldVal(a, "CertLabel", nil, 0); lv != nil {
							lv, _ = resolveCtx(lv, lctx)
							label = sprintfConst(w, lv)
						}
					}
				}
			}
		}
		if filterFn == nil || name == "" {
			c.Und("R3.refresh", hn+"|refresh filter", "-", "the handler's refresh filter (a named function) or its HandlerName constant was not found")
			continue
		}
		c.Saw(filterFn)
		okF := false
		for _, r := range liveReturns(filterFn) {
			if hay, sub, pol, ok := containsTest(r.Results[0]); ok && pol {
				if u, ok := sub.(*ssa.UnOp); ok && u.Op == token.MUL {
					if fvar, ok := u.X.(*ssa.FreeVar); ok && filterEnv[fvar] != nil {
						sub = filterEnv[fvar] // the captured cell's one value
					}
				} else if fvar, ok := sub.(*ssa.FreeVar); ok && filterEnv[fvar] != nil {
					sub = filterEnv[fvar]
				}
				k, isK := strConst(sub)
				okF = isK && k == name && w.Expr(hay) == "p0.Comment"
			}
		}
		c.Check(okF, "R3.refresh", hn+"|filter = comment contains the handler name (case-sensitive)", w.FnPos(filterFn), "strings.Contains(key.Comment, HandlerName)", "the refresh filter is not a case-sensitive substring test of the comment against the handler name (near-miss comments would be removed)")
		c.Check(label != "" && strings.Contains(label, name), "R3.refresh", hn+"|certificate label contains the handler name", "-", "label "+label, "the label put on provisioned certificates ("+label+") does not contain the handler name: the next run will not find and replace them")
	}

	// ---- R4 ----
	if refresh != nil {
		ok := true
		for _, cv := range invokeOf(add, "Add") {
			isNil, known := f.KnownNil(cv.Block(), refreshErr)
			if !InstrDominates(refresh, cv) || !known || !isNil {
				ok = false
			}
		}
		c.Check(ok && w.ErrEdgeEnds(add, refreshErr), "R4.order", "AddCertsToAgent|refresh precedes every add and its error is returned", w.Pos(refresh.Pos()), "dominates with must-fact err == nil", "certificates can be added although the refresh did not run or failed")
	}
	// a run that fails while signing leaves the previous generation in place: the certificate step (which starts by
	// removing it) is not reachable once a Sign has failed, nor once Generate has failed
	if m.Run != nil && m.AddCall != nil && m.SignCall != nil {
		run := m.Run
		rf := w.Facts(run)
		for name, ev := range map[string]ssa.Value{"Signer.Sign": m.SignErr, "Generate": m.GenErr} {
			if ev == nil {
				c.Unresolved("R4.order", "error result of "+name+" in gensign.Run")
				continue
			}
			evFn := ev.(ssa.Instruction).Parent()
			okStop := true
			nErr := 0
			for _, b := range evFn.Blocks {
				if n, k := rf.KnownNil(b, ev); !(k && !n) || len(b.Instrs) == 0 {
					continue
				}
				nErr++
				if evFn == m.AddCall.Parent() {
					if ReachableAvoiding(b.Instrs[0], nil)(m.AddCall) {
						okStop = false
					}
				} else if !leadsOnlyToReturns(b, func(x *ssa.BasicBlock) bool { n2, k2 := rf.KnownNil(x, ev); return k2 && !n2 }) || !w.failurePropagates(run, evFn) {
					okStop = false
				}
			}
			c.Check(okStop && nErr > 0, "R4.order", "Run|no certificate step after a failed "+name, w.Pos(m.AddCall.Pos()), "from the error edge of "+name+" AddCertsToAgent is unreachable", "after "+name+" failed the run can still reach AddCertsToAgent, whose first step removes the previously provisioned certificates: a failed run is destructive")
		}
	}
	for _, h := range m.Handlers {
		gen := w.methodOfNamed(h, "Generate")
		if gen == nil {
			continue
		}
		bad := 0
		for _, fn := range w.ReachableRepo([]*ssa.Function{gen}, true) {
			for _, call := range callsIn(fn) {
				cm := call.Common()
				if cm.IsInvoke() && strings.Contains(cm.Method.FullName(), "ssh/agent.") && (cm.Method.Name() == "Remove" || cm.Method.Name() == "RemoveAll") {
					bad++
					c.Bad("R4.order", shortFn(gen)+"|identity removed in "+shortFn(fn), w.Pos(call.Pos()), "identities are removed on the Generate tree, i.e. before anything was signed: a failed run loses the previous certificates")
				}
			}
		}
		if bad == 0 {
			c.Ok("R4.order", shortFn(gen)+"|no removal before signing", "-", "no agent Remove/RemoveAll reachable from Generate")
		}
	}
}

// sprintfConst evaluates fmt.Sprintf with constant arguments (only %s / %v / %d verbs), or a constant string.
func sprintfConst(w *World, v ssa.Value) string {
	if s, ok := strConst(v); ok {
		return s
	}
	call, ok := v.(*ssa.Call)
	if !ok || calleeName(call) != "fmt.Sprintf" {
		return ""
	}
	format, ok := strConst(call.Call.Args[0])
	if !ok {
		return ""
	}
	var args []string
	if sl, ok := call.Call.Args[1].(*ssa.Slice); ok {
		if a, ok := sl.X.(*ssa.Alloc); ok {
			n := arrayLen(a.Type())
			args = make([]string, n)
			if refs := a.Referrers(); refs != nil {
				for _, r := range *refs {
					if ia, ok := r.(*ssa.IndexAddr); ok {
						idx, _ := intConst(ia.Index)
						if rr := ia.Referrers(); rr != nil {
							for _, u := range *rr {
								if st, ok := u.(*ssa.Store); ok {
									if s, ok := strConst(st.Val); ok && int(idx) < len(args) {
										args[idx] = s
									} else {
										return ""
									}
								}
							}
						}
					}
				}
			}
		}
	}
	out := ""
	ai := 0
	for i := 0; i < len(format); i++ {
		if format[i] == '%' && i+1 < len(format) {
			switch format[i+1] {
			case 's', 'v', 'd':
				if ai >= len(args) {
					return ""
				}
				out += args[ai]
				ai++
				i++
				continue
			case '%':
				out += "%"
				i++
				continue
			}
			return ""
		}
		out += string(format[i])
	}
	return out
}
