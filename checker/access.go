package main

import (
	"go/token"
	"go/types"

	"golang.org/x/tools/go/ssa"
)

// Access is one use of a struct field in repository code.
type Access struct {
	Fn    *ssa.Function
	Instr ssa.Instruction
	Kind  string    // "read", "write", "mapread", "mapwrite", "mapdelete", "addr" (address escapes), "call" (method call / invoke on the loaded value), "range"
	Base  ssa.Value // the struct pointer/value the field was selected from
	FA    ssa.Value // the FieldAddr / Field value
}

func isFieldOf(t types.Type, named *types.Named, field string, idx int) bool {
	if p, ok := t.Underlying().(*types.Pointer); ok {
		t = p.Elem()
	}
	n, ok := t.(*types.Named)
	if !ok || n.Obj() != named.Obj() {
		return false
	}
	return fieldName(t, idx) == field
}

// FieldAccesses enumerates every access to field `field` of struct type `named` in repository functions.
func (w *World) FieldAccesses(named *types.Named, field string) []Access {
	var out []Access
	for _, fn := range w.RepoFuncs() {
		for _, b := range fn.Blocks {
			for _, ins := range b.Instrs {
				switch x := ins.(type) {
				case *ssa.FieldAddr:
					if !isFieldOf(x.X.Type(), named, field, x.Field) {
						continue
					}
					out = append(out, w.classifyAddrUses(fn, x, x.X)...)
				case *ssa.Field:
					if !isFieldOf(x.X.Type(), named, field, x.Field) {
						continue
					}
					out = append(out, w.classifyValueUses(fn, x, x, x.X, x)...)
				}
			}
		}
	}
	return out
}

func (w *World) classifyAddrUses(fn *ssa.Function, fa *ssa.FieldAddr, base ssa.Value) []Access {
	var out []Access
	refs := fa.Referrers()
	if refs == nil {
		return nil
	}
	for _, r := range *refs {
		switch u := r.(type) {
		case *ssa.Store:
			if u.Addr == ssa.Value(fa) {
				out = append(out, Access{fn, u, "write", base, fa})
			} else {
				out = append(out, Access{fn, u, "addr", base, fa})
			}
		case *ssa.UnOp:
			if u.Op == token.MUL {
				sub := w.classifyValueUses(fn, u, u, base, fa)
				if len(sub) == 0 {
					out = append(out, Access{fn, u, "read", base, fa})
				}
				out = append(out, sub...)
			}
		case *ssa.DebugRef:
		case *ssa.IndexAddr:
			// array field element address: classify by what is done with the element
			if er := u.Referrers(); er != nil {
				for _, e := range *er {
					switch eu := e.(type) {
					case *ssa.Store:
						if eu.Addr == ssa.Value(u) {
							out = append(out, Access{fn, eu, "write", base, fa})
						} else {
							out = append(out, Access{fn, eu, "addr", base, fa})
						}
					case *ssa.UnOp:
						out = append(out, Access{fn, eu, "read", base, fa})
					default:
						out = append(out, Access{fn, e, "addr", base, fa})
					}
				}
			}
		case *ssa.FieldAddr:
			// nested struct field: treat as read of the outer field (callers refine if needed)
			out = append(out, Access{fn, u, "read", base, fa})
		default:
			// passed to a call, captured, etc.
			if call, ok := r.(ssa.CallInstruction); ok {
				out = append(out, Access{fn, call, "addrcall", base, fa})
			} else {
				out = append(out, Access{fn, r, "addr", base, fa})
			}
		}
	}
	return out
}

// classifyValueUses looks at what is done with the loaded field value: map operations and calls.
func (w *World) classifyValueUses(fn *ssa.Function, loaded ssa.Value, loadInstr ssa.Instruction, base ssa.Value, fa ssa.Value) []Access {
	var out []Access
	refs := loaded.Referrers()
	if refs == nil {
		return nil
	}
	any := false
	for _, r := range *refs {
		switch u := r.(type) {
		case *ssa.MapUpdate:
			if u.Map == loaded {
				out = append(out, Access{fn, u, "mapwrite", base, fa})
				any = true
			}
		case *ssa.Lookup:
			if u.X == loaded {
				out = append(out, Access{fn, u, "mapread", base, fa})
				any = true
			}
		case *ssa.Range:
			out = append(out, Access{fn, u, "range", base, fa})
			any = true
		case ssa.CallInstruction:
			c := u.Common()
			if b, ok := c.Value.(*ssa.Builtin); ok && b.Name() == "delete" && len(c.Args) > 0 && c.Args[0] == loaded {
				out = append(out, Access{fn, u, "mapdelete", base, fa})
				any = true
			} else if (c.IsInvoke() && c.Value == loaded) || (!c.IsInvoke() && len(c.Args) > 0 && c.Args[0] == loaded && c.StaticCallee() != nil && c.StaticCallee().Signature.Recv() != nil) {
				out = append(out, Access{fn, u, "call", base, fa})
				any = true
			}
		}
	}
	if !any {
		return nil
	}
	// also report the plain read itself
	out = append(out, Access{fn, loadInstr, "read", base, fa})
	return out
}

// usesValueAsOperand reports whether instruction ins has v (or a load chain of it) among its operands.
func usesValue(ins ssa.Instruction, v ssa.Value) bool {
	for _, op := range ins.Operands(nil) {
		if op != nil && *op == v {
			return true
		}
	}
	return false
}
