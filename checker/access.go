package main

import (
	"go/token"
	"go/types"
	"strings"

	"golang.org/x/tools/go/ssa"
)

// Access is one use of a struct field in repository code.
type Access struct {
	Fn    *ssa.Function
	Instr ssa.Instruction
	Kind  string    // "read", "write", "mapread", "mapwrite", "mapdelete", "addr" (address escapes), "call" (method call / invoke on the loaded value), "range"
	Base  ssa.Value // the struct pointer/value the field was selected from
	FA    ssa.Value // the FieldAddr / Field value
	// an access made by a repository function that the field (its address, or the map it holds) was handed to:
	// Via is the call in the function that selected the field, Site the call of Fn itself (they coincide unless the
	// value was handed on once more)
	Via  ssa.CallInstruction
	Site ssa.CallInstruction
}

// viaCall marks accesses found in a callee with the call that leads to them.
func viaCall(sub []Access, call ssa.CallInstruction) []Access {
	for i := range sub {
		if sub[i].Site == nil {
			sub[i].Site = call
		}
		sub[i].Via = call
	}
	return sub
}

func isFieldOf(t types.Type, named *types.Named, field string, idx int) bool {
	if p, ok := t.Underlying().(*types.Pointer); ok {
		t = p.Elem()
	}
	n, ok := t.(*types.Named)
	if !ok || n.Obj() != named.Obj() {
		return false
	}
	return fieldName(t, idx) == field
}

// FieldAccesses enumerates every access to field `field` of struct type `named` in repository functions.
func (w *World) FieldAccesses(named *types.Named, field string) []Access {
	var out []Access
	for _, fn := range w.RepoFuncs() {
		for _, b := range fn.Blocks {
			for _, ins := range b.Instrs {
				switch x := ins.(type) {
				case *ssa.FieldAddr:
					if !isFieldOf(x.X.Type(), named, field, x.Field) {
						continue
					}
					out = append(out, w.classifyAddrUses(fn, x, x.X)...)
				case *ssa.Field:
					if !isFieldOf(x.X.Type(), named, field, x.Field) {
						continue
					}
					out = append(out, w.classifyValueUses(fn, x, x, x.X, x)...)
				}
			}
		}
	}
	return out
}

func (w *World) classifyAddrUses(fn *ssa.Function, fa ssa.Value, base ssa.Value) []Access {
	return w.classifyAddrUsesD(fn, fa, base, 0)
}

// classifyAddrUsesD: fa is the field's address - the FieldAddr itself or, in a repository function the address was
// handed to (a method of the field's own type, a helper taking a pointer to it), the parameter that receives it.
func (w *World) classifyAddrUsesD(fn *ssa.Function, fa ssa.Value, base ssa.Value, depth int) []Access {
	var out []Access
	refs := fa.Referrers()
	if refs == nil {
		return nil
	}
	for _, r := range *refs {
		switch u := r.(type) {
		case *ssa.Store:
			if u.Addr == ssa.Value(fa) {
				out = append(out, Access{Fn: fn, Instr: u, Kind: "write", Base: base, FA: fa})
			} else {
				out = append(out, Access{Fn: fn, Instr: u, Kind: "addr", Base: base, FA: fa})
			}
		case *ssa.UnOp:
			if u.Op == token.MUL {
				sub := w.classifyValueUses(fn, u, u, base, fa)
				if len(sub) == 0 {
					out = append(out, Access{Fn: fn, Instr: u, Kind: "read", Base: base, FA: fa})
				}
				out = append(out, sub...)
			}
		case *ssa.DebugRef:
		case *ssa.IndexAddr:
			// array field element address: classify by what is done with the element
			if er := u.Referrers(); er != nil {
				for _, e := range *er {
					switch eu := e.(type) {
					case *ssa.Store:
						if eu.Addr == ssa.Value(u) {
							out = append(out, Access{Fn: fn, Instr: eu, Kind: "write", Base: base, FA: fa})
						} else {
							out = append(out, Access{Fn: fn, Instr: eu, Kind: "addr", Base: base, FA: fa})
						}
					case *ssa.UnOp:
						out = append(out, Access{Fn: fn, Instr: eu, Kind: "read", Base: base, FA: fa})
					default:
						out = append(out, Access{Fn: fn, Instr: e, Kind: "addr", Base: base, FA: fa})
					}
				}
			}
		case *ssa.FieldAddr:
			// nested struct field: treat as read of the outer field (callers refine if needed)
			out = append(out, Access{Fn: fn, Instr: u, Kind: "read", Base: base, FA: fa})
		default:
			// passed to a call, captured, etc.
			if call, ok := r.(ssa.CallInstruction); ok {
				// a repository function that receives the address: its uses of the parameter are uses of the field
				if g := call.Common().StaticCallee(); g != nil && depth < 2 && w.InRepo(g) && len(g.Blocks) > 0 && !call.Common().IsInvoke() {
					followed := false
					for i, a := range call.Common().Args {
						if a == fa && i < len(g.Params) {
							out = append(out, viaCall(w.classifyAddrUsesD(g, g.Params[i], base, depth+1), call)...)
							followed = true
						}
					}
					if followed {
						continue
					}
				}
				out = append(out, Access{Fn: fn, Instr: call, Kind: "addrcall", Base: base, FA: fa})
			} else {
				out = append(out, Access{Fn: fn, Instr: r, Kind: "addr", Base: base, FA: fa})
			}
		}
	}
	return out
}

// classifyValueUses looks at what is done with the loaded field value: map operations and calls.
func (w *World) classifyValueUses(fn *ssa.Function, loaded ssa.Value, loadInstr ssa.Instruction, base ssa.Value, fa ssa.Value) []Access {
	return w.classifyValueUsesD(fn, loaded, loadInstr, base, fa, 0)
}

// classifyValueUsesD: loaded is the field's value - the load itself or, in a repository function the value was
// handed to (a method of the field's own named type, a helper over the map), the parameter that receives it.
func (w *World) classifyValueUsesD(fn *ssa.Function, loaded ssa.Value, loadInstr ssa.Instruction, base ssa.Value, fa ssa.Value, depth int) []Access {
	var out []Access
	refs := loaded.Referrers()
	if refs == nil {
		return nil
	}
	any := false
	for _, r := range *refs {
		switch u := r.(type) {
		case *ssa.MapUpdate:
			if u.Map == loaded {
				out = append(out, Access{Fn: fn, Instr: u, Kind: "mapwrite", Base: base, FA: fa})
				any = true
			}
		case *ssa.Lookup:
			if u.X == loaded {
				out = append(out, Access{Fn: fn, Instr: u, Kind: "mapread", Base: base, FA: fa})
				any = true
			}
		case *ssa.Range:
			out = append(out, Access{Fn: fn, Instr: u, Kind: "range", Base: base, FA: fa})
			any = true
		case *ssa.ChangeType:
			// the same map under another (named or instantiated) type: a generic wrapper's entry converting its receiver
			if isMapType(u.Type()) {
				if sub := w.classifyValueUsesD(fn, u, loadInstr, base, fa, depth); len(sub) > 0 {
					for _, sa := range sub {
						if sa.Instr != loadInstr || sa.Kind != "read" {
							out = append(out, sa)
						}
					}
					any = true
				}
			}
		case ssa.CallInstruction:
			c := u.Common()
			if b, ok := c.Value.(*ssa.Builtin); ok && b.Name() == "delete" && len(c.Args) > 0 && c.Args[0] == loaded {
				out = append(out, Access{Fn: fn, Instr: u, Kind: "mapdelete", Base: base, FA: fa})
				any = true
			} else if g := c.StaticCallee(); g != nil && !c.IsInvoke() && (depth < 2 || (depth < 4 && strings.HasPrefix(fn.Synthetic, "instantiation wrapper"))) && w.InRepo(g) && len(g.Blocks) > 0 && isMapType(loaded.Type()) {
				// a repository function over the map (a method of the map's named type, a helper): what it does with
				// its parameter is done to the field
				for i, a := range c.Args {
					if a == loaded && i < len(g.Params) {
						var at ssa.Instruction = u
						if sub := viaCall(w.classifyValueUsesD(g, g.Params[i], at, base, fa, depth+1), u); len(sub) > 0 {
							// drop the callee's own "plain read" record: the read is the one reported below
							for _, sa := range sub {
								if sa.Instr != at {
									out = append(out, sa)
								}
							}
							any = true
						}
					}
				}
			} else if (c.IsInvoke() && c.Value == loaded) || (!c.IsInvoke() && len(c.Args) > 0 && c.Args[0] == loaded && c.StaticCallee() != nil && c.StaticCallee().Signature.Recv() != nil) {
				out = append(out, Access{Fn: fn, Instr: u, Kind: "call", Base: base, FA: fa})
				any = true
			}
		}
	}
	if !any {
		return nil
	}
	// also report the plain read itself
	out = append(out, Access{Fn: fn, Instr: loadInstr, Kind: "read", Base: base, FA: fa})
	return out
}

// usesValueAsOperand reports whether instruction ins has v (or a load chain of it) among its operands.
func usesValue(ins ssa.Instruction, v ssa.Value) bool {
	for _, op := range ins.Operands(nil) {
		if op != nil && *op == v {
			return true
		}
	}
	return false
}

func isMapType(t types.Type) bool {
	_, ok := t.Underlying().(*types.Map)
	return ok
}

// Home: the function that selected the field for this access (for an access made by a function the field was
// handed to, the function holding the call that hands it over).
func (a Access) Home() *ssa.Function {
	if a.Via != nil {
		return a.Via.Parent()
	}
	return a.Fn
}

// WithAccess runs f under the facts of root's frame in the context in which the access is made: when the access is
// made by a function the field was handed to, the call that leads to it is selected, so the function's parameters
// resolve (and print) as the arguments of that call and the facts inside it are those of that call.
func (w *World) WithAccess(root *ssa.Function, a Access, f func(facts *Facts)) {
	if a.Site == nil || !w.inTree(root, a.Site.Parent()) {
		f(w.Facts(root))
		return
	}
	old := w.focus
	defer w.restoreFocus(old)
	w.Focus(root)
	// an access reached through two calls (a generic wrapper's entry, then its body): the outer call is selected too
	if a.Via != nil && a.Via != a.Site {
		if g2 := a.Via.Common().StaticCallee(); g2 != nil && g2 != a.Fn {
			if w.pinned == nil {
				w.pinned = map[*ssa.Function]ssa.CallInstruction{}
			}
			old2, had2 := w.pinned[g2]
			w.pinned[g2] = a.Via
			defer func() {
				if had2 {
					w.pinned[g2] = old2
				} else {
					delete(w.pinned, g2)
				}
			}()
		}
	}
	w.Pin(root, a.Fn, a.Site, f)
}

// mapOp is one operation on a map value, made directly or by a repository function the map was handed to (a
// method of the map's named type, a helper). Key and Found are values of the frame of At.
type mapOp struct {
	Kind  string          // "update", "lookup", "delete", "range", "other"
	Key   ssa.Value       // the key operand
	Found ssa.Value       // lookup: a boolean that is true exactly when the key is present (nil: only the element is read)
	At    ssa.Instruction // the operation itself, or the call that hands the map over
}

// mapOpsOn enumerates the operations on the map value m.
func (w *World) mapOpsOn(m ssa.Value) []mapOp {
	return w.mapOpsOnD(m, 0)
}

func (w *World) mapOpsOnD(m ssa.Value, depth int) []mapOp {
	var out []mapOp
	refs := m.Referrers()
	if refs == nil {
		return nil
	}
	for _, r := range *refs {
		switch u := r.(type) {
		case *ssa.DebugRef:
		case *ssa.ChangeType:
			out = append(out, w.mapOpsOnD(u, depth)...)
		case *ssa.MapUpdate:
			if u.Map == m {
				out = append(out, mapOp{Kind: "update", Key: u.Key, At: u})
			} else {
				out = append(out, mapOp{Kind: "other", At: u})
			}
		case *ssa.Lookup:
			op := mapOp{Kind: "lookup", Key: u.Index, At: u}
			if u.CommaOk {
				for _, er := range *u.Referrers() {
					if ex, ok := er.(*ssa.Extract); ok && ex.Index == 1 {
						op.Found = ex
					}
				}
			}
			out = append(out, op)
		case *ssa.Range:
			out = append(out, mapOp{Kind: "range", At: u})
		case ssa.CallInstruction:
			c := u.Common()
			if b, ok := c.Value.(*ssa.Builtin); ok {
				switch {
				case b.Name() == "delete" && len(c.Args) == 2 && c.Args[0] == m:
					out = append(out, mapOp{Kind: "delete", Key: c.Args[1], At: u})
				case b.Name() == "len":
				default:
					out = append(out, mapOp{Kind: "other", At: u})
				}
				continue
			}
			g := c.StaticCallee()
			if g == nil || c.IsInvoke() || depth >= 2 || !w.InRepo(g) || len(g.Blocks) == 0 {
				out = append(out, mapOp{Kind: "other", At: u})
				continue
			}
			for i, a := range c.Args {
				if a != m || i >= len(g.Params) {
					continue
				}
				for _, in := range w.mapOpsOnD(g.Params[i], depth+1) {
					op := mapOp{Kind: in.Kind, At: u}
					if in.Key != nil {
						kp, isParam := throughCell(strip(in.Key)).(*ssa.Parameter)
						if !isParam || kp.Parent() != g || paramIndex(kp) >= len(c.Args) {
							op.Kind = "other"
						} else {
							op.Key = c.Args[paramIndex(kp)]
						}
					}
					if in.Found != nil && op.Kind == "lookup" {
						// the helper hands the found flag back as its (only) result
						if cv, isVal := u.(*ssa.Call); isVal && g.Signature.Results().Len() == 1 && isBoolType(g.Signature.Results().At(0).Type()) {
							same := true
							for _, ret := range liveReturns(g) {
								if throughCell(strip(ret.Results[0])) != in.Found {
									same = false
								}
							}
							if same {
								op.Found = cv
							}
						}
					}
					out = append(out, op)
				}
			}
		default:
			out = append(out, mapOp{Kind: "other", At: r})
		}
	}
	return out
}
