package main

import (
	"fmt"
	"os"
)

func dbgf(format string, args ...interface{}) {
	if os.Getenv("YDBG") != "" {
		fmt.Printf("DBG "+format+"\n", args...)
	}
}
