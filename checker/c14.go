package main

import "golang.org/x/tools/go/ssa"

func reqParamEntries(w *World) []*ssa.Function {
	var out []*ssa.Function
	for _, f := range []*ssa.Function{
		w.Func("csr", "NewReqParam"), w.Func("message", "Unmarshal"), w.Func("message", "UnmarshalLegacy"),
		w.Func("sshutils/version", "Unmarshal"), w.Func("csr/transid", "Generate"),
	} {
		if f != nil {
			out = append(out, f)
		}
	}
	out = append(out, w.methodsOf("message", "Attributes")...)
	return out
}

func runPanicRules(c *Ctx, rule string, entries []*ssa.Function, floor int) {
	w := c.w
	fns := w.ReachableRepo(entries, true)
	for _, f := range fns {
		c.Saw(f)
	}
	n := reportSites(c, rule+".bounds", w.BoundsObligations(fns, commonJust))
	n += reportSites(c, rule+".nil", w.UseBeforeErrCheck(fns))
	n += reportSites(c, rule+".nil", w.JSONNullPointer(fns))
	c.Floor(rule+".bounds", n, floor, "panic obligations")
}

func init() {
	register(&property{
		ID: "C14",
		Meta: propMeta{
			Level:       "Structural necessary conditions of totality and provenance of the request parameters: (R1) the source of every field of the parameter struct built by the constructor (login name, client IP and namespace policy from the server-side environment / argv under their validity must-facts; transaction id from the generator; client user/host copied from the decoded message; nothing decoded from the client message flows into the server-decided fields); (R2) the namespace-policy set and the force-command token positions; (R3) the transaction-id construction (5 bytes of crypto/rand, %x); (R4) every index/slice/assertion/nil-dereference obligation on the constructor's call tree (message decoding, version parsing, force-command parsing) is discharged. net.ParseIP, regexp and strconv are trusted.",
			Technique:   "static analysis: field-source (value-flow) tables + must-fact gating + panic-obligation discharge on go/ssa",
			Explanation: "The parameter constructor's composite literal is located in SSA (new T + field stores); each field's stored value is rendered as a canonical origin expression and compared with the rule's table; forbidden sources are searched in the backward slice. Panic obligations are enumerated over the reachable repository functions and discharged with interval must-facts.",
			Assumptions: []string{"encoding/json, net.ParseIP, regexp, strconv behave as documented"},
			Trusted:     []string{"go/packages", "go/types", "go/ssa", "encoding/json"},
			RuleDoc: map[string]string{
				"R2.policy": "namespace-policy set {NONS, NSOK}; force-command token positions and length guards",
				"R4.bounds": "index/slice/assertion obligations from NewReqParam down",
				"R4.nil":    "json-null / use-before-error-check obligations from NewReqParam down",
			},
		},
		Run: runC14,
	})
}

func runC14(c *Ctx) {
	if c.w.Func("csr", "NewReqParam") == nil {
		c.Unresolved("R4.bounds", "csr.NewReqParam")
		return
	}
	runPanicRules(c, "R4", reqParamEntries(c.w), 20)
	tablesC14(c)
}
