package main

import (
	"go/token"
	"regexp"
	"strconv"
	"strings"

	"golang.org/x/tools/go/ssa"
)

func reqParamEntries(w *World) []*ssa.Function {
	var out []*ssa.Function
	for _, f := range []*ssa.Function{
		w.Func("csr", "NewReqParam"), w.Func("message", "Unmarshal"), w.Func("message", "UnmarshalLegacy"),
		w.Func("sshutils/version", "Unmarshal"), w.Func("csr/transid", "Generate"),
	} {
		if f != nil {
			out = append(out, f)
		}
	}
	out = append(out, w.methodsOf("message", "Attributes")...)
	return out
}

// firstTokenNorm rewrites strings.Cut(x, sep)#0 (the part before the first separator) as strings.Split(x, sep)[0]:
// the same string for every x.
var splitNFirst = regexp.MustCompile(`^call<strings\.SplitN>\((.*),const\((-?\d+)\)\)\[const\(0\)\]$`)

func firstTokenNorm(ex string) string {
	// strings.SplitN(x, sep, n)[0] with n >= 2 (or negative): the part before the first separator as well
	if m := splitNFirst.FindStringSubmatch(ex); m != nil {
		if n, err := strconv.Atoi(m[2]); err == nil && (n >= 2 || n < 0) {
			return "call<strings.Split>(" + m[1] + ")[const(0)]"
		}
	}
	const pre = "call<strings.Cut>("
	if !strings.HasPrefix(ex, pre) || !strings.HasSuffix(ex, ")#0") {
		return ex
	}
	return "call<strings.Split>(" + strings.TrimSuffix(strings.TrimPrefix(ex, pre), ")#0") + ")[const(0)]"
}

func runPanicRules(c *Ctx, rule string, entries []*ssa.Function, floor int) {
	w := c.w
	fns := w.ReachableRepo(entries, true)
	for _, f := range fns {
		c.Saw(f)
		c.BoundsFns[f.String()] = true
	}
	n := reportSites(c, rule+".bounds", w.BoundsObligations(fns, commonJust))
	n += reportSites(c, rule+".nil", w.UseBeforeErrCheck(fns))
	n += reportSites(c, rule+".nil", w.JSONNullPointer(fns))
	c.Floor(rule+".bounds", n, floor, "panic obligations")
}

func init() {
	register(&property{
		ID: "C14",
		Meta: propMeta{
			Level:       "Structural necessary conditions of totality and provenance of the request parameters: (R1) the source of every field of the parameter struct built by the constructor (login name, client IP and namespace policy from the server-side environment / argv under their validity must-facts; transaction id from the generator; client user/host copied from the decoded message; nothing decoded from the client message flows into the server-decided fields); (R2) the namespace-policy set and the force-command token positions; (R3) the transaction-id construction (5 bytes of crypto/rand, %x); (R4) every index/slice/assertion/nil-dereference obligation on the constructor's call tree (message decoding, version parsing, force-command parsing) is discharged. net.ParseIP, regexp and strconv are trusted.",
			Technique:   "static analysis: field-source (value-flow) tables + must-fact gating + panic-obligation discharge on go/ssa",
			Explanation: "The parameter constructor's composite literal is located in SSA (new T + field stores); each field's stored value is rendered as a canonical origin expression and compared with the rule's table; forbidden sources are searched in the backward slice. Panic obligations are enumerated over the reachable repository functions and discharged with interval must-facts.",
			Assumptions: []string{"encoding/json, net.ParseIP, regexp, strconv behave as documented"},
			Trusted:     []string{"go/packages", "go/types", "go/ssa", "encoding/json"},
			RuleDoc: map[string]string{
				"R9.state":   "no memory of earlier calls: on the call tree only frozen package-level variables are touched (known exceptions listed with reasons), and no package-level object is handed out",
				"R1.fields":  "source and validity must-facts of every field of the parameter literal; independence from the client message",
				"R3.transid": "transaction id = hex of 5 crypto/rand bytes",
				"R5.version": "version parser: 16-bit major/minor from the two sides of the dot, in order",
				"R2.policy":  "namespace-policy set {NONS, NSOK}; force-command token positions and length guards",
				"R4.bounds":  "index/slice/assertion obligations from NewReqParam down",
				"R4.nil":     "json-null / use-before-error-check obligations from NewReqParam down",
			},
		},
		Run: runC14,
	})
}

func runC14(c *Ctx) {
	stateRule(c, "R9.state", []*ssa.Function{c.w.Func("csr", "NewReqParam")}, knownState)
	if c.w.Func("csr", "NewReqParam") == nil {
		c.Unresolved("R4.bounds", "csr.NewReqParam")
		return
	}
	runPanicRules(c, "R4", reqParamEntries(c.w), 20)
	tablesC14(c)
	c14Fields(c)
}

// c14Fields: R1 (field sources of the parameter literal), R3 (transaction id), R5 (version parser).
func c14Fields(c *Ctx) {
	w := c.w
	fn := w.Func("csr", "NewReqParam")
	c.Saw(fn)
	f := w.Facts(fn)
	allocs := allocsOf(fn, "csr.ReqParam")
	if len(allocs) != 1 {
		c.Und("R1.fields", "NewReqParam|one parameter literal", w.FnPos(fn), "expected exactly one ReqParam literal, found "+itoa(len(allocs)))
		return
	}
	lit := allocs[0]
	// it is the successful result
	for _, r := range w.MayBeNilReturns(fn) {
		c.Check(r.Results[0] == ssa.Value(lit), "R1.fields", "NewReqParam|returns the literal", w.Pos(r.Pos()), "the checked literal", "the successful result is not the literal examined")
	}
	fs := FieldStores(fn, lit)
	env := func(name string) string { return `call<dyn p0>(const("` + name + `"))` }
	attrs := "call<" + RepoMod + "/message.Unmarshal>(" + env("SSH_ORIGINAL_COMMAND") + ")#0"
	forceName := RepoMod + "/csr.parseForceCommand"
	if pf := calleeBySignature(w, fn, 1, "common.NamespacePolicy", "string", "error"); pf != nil {
		forceName = fnName(pf)
	}
	force := "call<" + forceName + ">(call<dyn p1>())"
	// the words of the forced command are read from the argument list, which stays as it was: nothing on the parser's
	// tree writes into storage shared with it (tokens built in place over the list overwrite arguments not yet read)
	for _, g := range w.Tree(fn) {
		if fnName(g) != forceName || len(g.Params) == 0 {
			continue
		}
		c.Saw(g)
		argList := g.Params[0]
		muts := w.aliasMutations(w.Tree(g), func(v ssa.Value) bool { return v == ssa.Value(argList) })
		for _, mu := range muts {
			c.Bad("R2.policy", shortFn(mu.fn)+"|in-place write to the argument list", w.Pos(mu.at.Pos()), "the parser writes into storage shared with the argument list it is reading: "+mu.what)
		}
		if len(muts) == 0 {
			c.Ok("R2.policy", shortFn(g)+"|argument list only read", w.FnPos(g), "alias flow from the argument list: no element store, no in-place library call, no append onto a shortened view")
		}
	}
	want := map[string]string{
		"LogName":         env("LOGNAME"),
		"ClientIP":        "call<strings.Split>(" + env("SSH_CONNECTION") + `,const(" "))[const(0)]`,
		"NamespacePolicy": force + "#0",
		"HandlerName":     force + "#1",
		"TransID":         "call<" + RepoMod + "/csr/transid.Generate>()",
		"ReqUser":         attrs + ".Username",
		"ReqHost":         attrs + ".Hostname",
		"SignatureAlgo":   attrs + ".SignatureAlgo",
		"Attrs":           attrs,
	}
	for fld, exp := range want {
		vs := fs[fld]
		ok := len(vs) == 1 && firstTokenNorm(w.Expr(vs[0])) == exp
		got := "unset"
		if len(vs) > 0 {
			got = shortName(w.Expr(vs[0]))
		}
		c.Check(ok, "R1.fields", "NewReqParam|"+fld, w.Pos(lit.Pos()), shortName(exp), fld+" is "+got+", must be "+shortName(exp))
	}
	// nothing decoded from the client message flows into the server-decided fields
	for _, fld := range []string{"LogName", "ClientIP", "NamespacePolicy", "HandlerName", "TransID"} {
		for _, v := range fs[fld] {
			bad := ""
			for o := range w.Origins(v) {
				if strings.Contains(o, "message.Unmarshal") || strings.Contains(o, "SSH_ORIGINAL_COMMAND") {
					bad = o
				}
			}
			c.Check(bad == "", "R1.fields", "NewReqParam|"+fld+" independent of the client message", w.Pos(lit.Pos()), "no origin in the decoded client message", fld+" depends on the client-supplied message ("+bad+")")
		}
	}
	// validity facts at the literal
	b := lit.Block()
	okLog := f.Any(b, func(l Lit) bool {
		bin, ok := l.V.(*ssa.BinOp)
		if !ok {
			return false
		}
		k, isK := strConst(bin.Y)
		return isK && k == "" && w.Expr(bin.X) == env("LOGNAME") && ((bin.Op == token.EQL && !l.Pol) || (bin.Op == token.NEQ && l.Pol))
	})
	c.Check(okLog, "R1.fields", "NewReqParam|login name non-empty", w.Pos(lit.Pos()), "must-fact LOGNAME != \"\"", "parameters can be built with an empty server-side login name")
	okIP := f.Any(b, func(l Lit) bool {
		y, isNil, ok := nilTest(l)
		if !ok || isNil {
			return false
		}
		cv, isCall := strip(y).(*ssa.Call)
		return isCall && calleeName(cv) == "net.ParseIP" && firstTokenNorm(w.Expr(cv.Call.Args[0])) == want["ClientIP"]
	})
	c.Check(okIP, "R1.fields", "NewReqParam|client IP syntactically valid", w.Pos(lit.Pos()), "must-fact net.ParseIP(clientIP) != nil", "parameters can be built with a client IP that did not parse")
	for _, call := range callsIn(fn) {
		cv, ok := call.(*ssa.Call)
		if !ok {
			continue
		}
		n := calleeName(cv)
		if n == forceName || strings.HasSuffix(n, "message.Unmarshal") {
			errIdx := cv.Call.Signature().Results().Len() - 1
			isNil, known := f.KnownNil(b, extractOf(cv, errIdx))
			c.Check(known && isNil, "R1.fields", "NewReqParam|"+shortName(n)+" succeeded", w.Pos(cv.Pos()), "must-fact err == nil", "parameters can be built although "+shortName(n)+" failed")
		}
	}
	// client version: default when empty, else the parsed one with its error checked
	okVer := false
	if vs := fs["SSHClientVersion"]; len(vs) == 1 {
		leaves := w.Leaves(vs[0], lit)
		nDef, nParsed := 0, 0
		for _, lf := range leaves {
			ex := w.Expr(lf.Val)
			switch {
			case ex == "call<"+RepoMod+"/sshutils/version.NewDefaultVersion>()":
				nDef++
			case ex == "call<"+RepoMod+"/sshutils/version.Unmarshal>("+attrs+".SSHClientVersion)#0":
				// error checked on this path
				for l := range lf.Facts {
					if y, isNil, ok := nilTest(l); ok && isNil {
						if e2, ok := strip(y).(*ssa.Extract); ok && e2.Index == 1 && strings.Contains(w.Expr(e2), "version.Unmarshal") {
							nParsed++
						}
					}
				}
			default:
				// one function of the version package doing exactly that: the default for the empty string, else the
				// parser's own results; its error checked here
				okWrap := false
				if exv, isEx := throughCell(strip(lf.Val)).(*ssa.Extract); isEx && exv.Index == 0 {
					if cv, isCall := exv.Tuple.(*ssa.Call); isCall && len(cv.Call.Args) == 1 && w.Expr(cv.Call.Args[0]) == attrs+".SSHClientVersion" {
						if h := cv.Call.StaticCallee(); h != nil && w.InRepo(h) && h.Blocks != nil && strings.HasSuffix(h.Pkg.Pkg.Path(), "sshutils/version") && errorResultIndex(h) == 1 {
							hf := w.factsOf(h)
							good, sawDef, sawParse := true, false, false
							for _, r := range liveReturns(h) {
								e0 := w.ExprIn(h, r.Results[0])
								switch {
								case e0 == "call<"+RepoMod+"/sshutils/version.NewDefaultVersion>()" && isNilConst(strip(r.Results[1])):
									// only for the empty string
									emptyOnly := false
									for l := range hf.in[r.Block()] {
										if bin, isBin := l.V.(*ssa.BinOp); isBin && bin.Op == token.EQL && l.Pol && throughCell(strip(bin.X)) == ssa.Value(h.Params[0]) {
											if sc, isS := strConst(bin.Y); isS && sc == "" {
												emptyOnly = true
											}
										}
									}
									if !emptyOnly {
										good = false
									}
									sawDef = true
								case e0 == "call<"+RepoMod+"/sshutils/version.Unmarshal>(p0)#0" && w.ExprIn(h, r.Results[1]) == "call<"+RepoMod+"/sshutils/version.Unmarshal>(p0)#1":
									sawParse = true
								default:
									good = false
								}
							}
							if isNil, known := f.KnownNil(lit.Block(), extractOf(cv, 1)); good && sawDef && sawParse && known && isNil {
								okWrap = true
							}
						}
					}
				}
				if okWrap {
					nDef, nParsed = nDef+1, nParsed+1
				} else {
					nDef, nParsed = -10, -10
				}
			}
		}
		okVer = nDef == 1 && nParsed == 1
	}
	c.Check(okVer, "R1.fields", "NewReqParam|client version = declared major.minor or 0.0", w.Pos(lit.Pos()), "default when the message omits it, else version.Unmarshal(declared) with its error checked", "the client version is neither the default nor the checked parse of the declared version")
	// policy validity inside the force-command parser
	if pf := calleeBySignature(w, fn, 1, "common.NamespacePolicy", "string", "error"); pf != nil {
		c.Saw(pf)
		pff := w.Facts(pf)
		for _, r := range w.MayBeNilReturns(pf) {
			ok := pff.Any(r.Block(), func(l Lit) bool {
				cv, isCall := l.V.(*ssa.Call)
				return isCall && l.Pol && strings.HasSuffix(calleeName(cv), "common.ValidNamespacePolicy") && cv.Call.Args[0] == r.Results[0]
			})
			c.Check(ok, "R1.fields", "parseForceCommand|policy is one of the defined values", w.Pos(r.Pos()), "must-fact ValidNamespacePolicy(policy)", "a namespace policy outside the defined set can be returned")
		}
	}

	// ---- R3 ----
	if tg := w.Func("csr/transid", "Generate"); tg != nil {
		c.Saw(tg)
		okLen, okRand, okFmt := false, false, false
		var buf ssa.Value
		for _, call := range callsTo(tg, "crypto/rand.Read") {
			buf = call.Common().Args[0]
			okRand = true
			if sl, ok := buf.(*ssa.Slice); ok {
				okLen = arrayLen(sl.X.Type()) == 5
			} else if ms, ok := buf.(*ssa.MakeSlice); ok {
				k, isK := intConst(ms.Len)
				okLen = isK && k == 5
			}
		}
		for _, r := range liveReturns(tg) {
			for _, lf := range w.Leaves(r.Results[0], r) {
				if cv, ok := lf.Val.(*ssa.Call); ok && calleeName(cv) == "encoding/hex.EncodeToString" && len(cv.Call.Args) == 1 && w.canon(tg, cv.Call.Args[0]) == w.canon(tg, buf) {
					okFmt = true // the same ten lower-case hex digits
				}
				if cv, ok := lf.Val.(*ssa.Call); ok && calleeName(cv) == "fmt.Sprintf" {
					if format, ok := strConst(cv.Call.Args[0]); ok && format == "%x" {
						if sl, ok := cv.Call.Args[1].(*ssa.Slice); ok {
							if a, ok := sl.X.(*ssa.Alloc); ok {
								for _, v := range storesInto(a) {
									if cvv, ok := strip(v).(*ssa.Convert); ok && cvv.X == buf {
										okFmt = true
									}
									if strip(v) == buf {
										okFmt = true
									}
								}
							}
						}
					}
				}
			}
		}
		c.Check(okRand && okLen, "R3.transid", "transid.Generate|5 bytes of crypto/rand", w.FnPos(tg), "rand.Read(make([]byte,5))", "the transaction id is not 5 bytes read from crypto/rand")
		c.Check(okFmt, "R3.transid", "transid.Generate|hex of those bytes", w.FnPos(tg), "fmt.Sprintf(\"%x\", bytes) = 10 hex digits", "the transaction id is not the hex form of the random bytes")
	} else {
		c.Unresolved("R3.transid", "transid.Generate")
	}

	// ---- R5 ----
	if vu := w.Func("sshutils/version", "Unmarshal"); vu != nil {
		c.Saw(vu)
		okParse := 0
		var idx ssa.Value
		for _, call := range callsTo(vu, "strings.Index") {
			if s, ok := strConst(call.Common().Args[1]); ok && s == "." && w.Expr(call.Common().Args[0]) == "p0" {
				idx = call.Value()
			}
		}
		// or: before, after, _ := strings.Cut(s, ".")
		var cut *ssa.Call
		for _, call := range callsTo(vu, "strings.Cut") {
			if s, ok := strConst(call.Common().Args[1]); ok && s == "." && w.Expr(call.Common().Args[0]) == "p0" {
				cut, _ = call.(*ssa.Call)
			}
		}
		var maj, min ssa.Value
		// the 16-bit parse written once in a helper of the package: helper(x) = (uint16(n), nil) with n, err :=
		// ParseUint(x, _, 16) and the error handed back
		direct16 := map[ssa.Value]bool{}
		for _, call := range callsIn(vu) {
			cv, ok := call.(*ssa.Call)
			if !ok || cut == nil || len(cv.Call.Args) != 1 {
				continue
			}
			h := cv.Call.StaticCallee()
			if h == nil || !w.InRepo(h) || h.Blocks == nil || h.Signature.Results().Len() != 2 || errorResultIndex(h) != 1 {
				continue
			}
			var pu *ssa.Call
			nPU := 0
			for _, hc := range callsTo(h, "strconv.ParseUint") {
				pu, _ = hc.(*ssa.Call)
				nPU++
			}
			if nPU != 1 || pu == nil || throughCell(strip(pu.Call.Args[0])) != ssa.Value(h.Params[0]) {
				continue
			}
			if bits, _ := intConst(pu.Call.Args[2]); bits != 16 {
				continue
			}
			if !w.ErrEdgeEnds(h, extractOf(pu, 1)) {
				continue
			}
			okRet := true
			for _, r := range w.MayBeNilReturns(h) {
				cvt, isConv := strip(r.Results[0]).(*ssa.Convert)
				if !isConv || cvt.X != extractOf(pu, 0) {
					okRet = false
				}
			}
			if !okRet {
				continue
			}
			if ex, isEx := w.canon(vu, cv.Call.Args[0]).(*ssa.Extract); isEx && ex.Tuple == ssa.Value(cut) {
				val := extractOf(cv, 0)
				switch ex.Index {
				case 0:
					maj = val
					okParse++
				case 1:
					min = val
					okParse++
				}
				direct16[val] = true
				if idx == nil {
					idx = cut
				}
				c.Check(w.ErrEdgeEnds(vu, extractOf(cv, 1)), "R5.version", "version.Unmarshal|"+w.Short(cv.Call.Args[0])+" parse error returned", w.Pos(cv.Pos()), "error edge returns", "a number that does not fit 16 bits is not refused")
			}
		}
		for _, call := range callsTo(vu, "strconv.ParseUint") {
			cv := call.(*ssa.Call)
			bits, _ := intConst(cv.Call.Args[2])
			if ex, isEx := w.canon(vu, cv.Call.Args[0]).(*ssa.Extract); isEx && cut != nil && ex.Tuple == ssa.Value(cut) && bits == 16 {
				switch ex.Index {
				case 0:
					maj = extractOf(cv, 0)
					okParse++
				case 1:
					min = extractOf(cv, 0)
					okParse++
				}
				if idx == nil {
					idx = cut
				}
				c.Check(w.ErrEdgeEnds(vu, extractOf(cv, 1)), "R5.version", "version.Unmarshal|"+w.Short(cv.Call.Args[0])+" parse error returned", w.Pos(cv.Pos()), "error edge returns", "a number that does not fit 16 bits is not refused")
				continue
			}
			sl, ok := cv.Call.Args[0].(*ssa.Slice)
			if !ok || bits != 16 || w.Expr(sl.X) != "p0" {
				continue
			}
			if sl.Low == nil && sl.High == idx {
				maj = extractOf(cv, 0)
				okParse++
			}
			if sl.High == nil && sl.Low != nil {
				if b, ok := sl.Low.(*ssa.BinOp); ok && b.Op == token.ADD && b.X == idx {
					if one, ok := intConst(b.Y); ok && one == 1 {
						min = extractOf(cv, 0)
						okParse++
					}
				}
			}
			c.Check(w.ErrEdgeEnds(vu, extractOf(cv, 1)), "R5.version", "version.Unmarshal|"+w.Short(cv.Call.Args[0])+" parse error returned", w.Pos(cv.Pos()), "error edge returns", "a number that does not fit 16 bits is not refused")
		}
		c.Check(okParse == 2 && idx != nil, "R5.version", "version.Unmarshal|major = s[:i], minor = s[i+1:], 16 bits", w.FnPos(vu), "ParseUint(s[:i]), ParseUint(s[i+1:])", "major/minor are not parsed from the two sides of the first dot as 16-bit numbers")
		okNew := false
		for _, r := range w.MayBeNilReturns(vu) {
			if cv, ok := r.Results[0].(*ssa.Call); ok && strings.HasSuffix(calleeName(cv), "version.New") && maj != nil && min != nil {
				a0, ok0 := cv.Call.Args[0].(*ssa.Convert)
				a1, ok1 := cv.Call.Args[1].(*ssa.Convert)
				okNew = ok0 && ok1 && a0.X == maj && a1.X == min
				if direct16[maj] && direct16[min] {
					okNew = throughCell(strip(cv.Call.Args[0])) == maj && throughCell(strip(cv.Call.Args[1])) == min
				}
			}
		}
		c.Check(okNew, "R5.version", "version.Unmarshal|New(major, minor) in that order", w.FnPos(vu), "New(uint16(major), uint16(minor))", "major and minor are swapped or replaced")
		if nv := w.Func("sshutils/version", "New"); nv != nil {
			ok := false
			for _, a := range allocsOf(nv, "version.Version") {
				fsv := FieldStores(nv, a)
				ok = len(fsv["major"]) == 1 && w.Expr(fsv["major"][0]) == "p0" && len(fsv["minor"]) == 1 && w.Expr(fsv["minor"][0]) == "p1"
			}
			c.Check(ok, "R5.version", "version.New|fields of the same name", w.FnPos(nv), "major: major, minor: minor", "version.New stores its arguments into the wrong fields")
		}
	}
}
