package main

import (
	"strings"

	"golang.org/x/tools/go/ssa"
)

// Completeness of the framed writer: what write(c, data) puts on the wire on a successful return is the 4-byte
// big-endian length of data followed by data in full - as two writes (prefix, payload) or as one write of a frame
// assembled in a buffer, in which case the copy of the payload into the buffer must be proved not to truncate (the
// room behind the prefix is at least the largest payload that can reach the copy).

// frameWriteRule checks the framed writer of pkg under the given rule id.
func frameWriteRule(c *Ctx, rule, pkg string) {
	w := c.w
	_, wr := framingBodies(w, pkg)
	if wr == nil || len(wr.Params) != 2 {
		c.Unresolved(rule, "framed write helper of "+pkg)
		return
	}
	c.Saw(wr)
	old := w.focus
	defer w.restoreFocus(old)
	w.Focus(wr)
	data := ssa.Value(wr.Params[1])
	bc := &boundsCtx{w: w, fn: wr, root: wr, facts: w.factsOf(wr)}
	isLenData := func(v ssa.Value) bool {
		for i := 0; i < 3; i++ {
			v = throughCell(strip(v))
			if cv, ok := v.(*ssa.Convert); ok {
				v = cv.X
				continue
			}
			break
		}
		la := lenArg(v)
		return la != nil && throughCell(strip(la)) == data
	}
	// prefixPut: a PutUint32(<buf>[lo:4...], uint32(len(data))) on buffer buf at offset 0, dominating at
	prefixPut := func(buf ssa.Value, at ssa.Instruction) bool {
		for _, call := range callsIn(wr) {
			cv, ok := call.(*ssa.Call)
			if !ok || !strings.HasSuffix(calleeName(cv), "bigEndian).PutUint32") || len(cv.Call.Args) < 3 {
				continue
			}
			sl, isSl := strip(cv.Call.Args[1]).(*ssa.Slice)
			if !isSl || sl.X != buf {
				continue
			}
			if sl.Low != nil {
				if k, isK := intConst(sl.Low); !isK || k != 0 {
					continue
				}
			}
			if isLenData(cv.Call.Args[2]) && InstrDominates(cv, at) {
				return true
			}
		}
		return false
	}
	type wcall struct {
		call *ssa.Call
		kind string // prefix, body, frame
	}
	var writes []wcall
	for _, cv := range invokeOf(wr, "Write") {
		if throughCell(strip(cv.Call.Value)) != ssa.Value(wr.Params[0]) || len(cv.Call.Args) != 1 {
			continue
		}
		arg := throughCell(strip(cv.Call.Args[0]))
		key := shortFn(wr) + "|what is written"
		pos := w.Pos(cv.Pos())
		if arg == data {
			writes = append(writes, wcall{cv, "body"})
			c.Ok(rule, key+" (payload)", pos, "the data parameter itself, whole")
			continue
		}
		// the prefix made by appending: AppendUint32(<empty>, uint32(len(data))); a whole frame: append(<that>, data...)
		appendedPrefix := func(v ssa.Value) bool {
			ac, ok := throughCell(strip(v)).(*ssa.Call)
			if !ok || !strings.HasSuffix(calleeName(ac), "bigEndian).AppendUint32") || len(ac.Call.Args) < 3 {
				return false
			}
			base := strip(ac.Call.Args[1])
			empty := false
			switch b := base.(type) {
			case *ssa.Const:
				empty = b.IsNil()
			case *ssa.MakeSlice:
				empty = isConstInt(b.Len, 0)
			case *ssa.Slice:
				// buf[:0] of a local array
				empty = b.Low == nil && isConstInt(b.High, 0)
			}
			return empty && isLenData(ac.Call.Args[2])
		}
		if appendedPrefix(arg) {
			writes = append(writes, wcall{cv, "prefix"})
			c.Ok(rule, key+" (prefix)", pos, "AppendUint32(<empty>, uint32(len(data)))")
			continue
		}
		if ap, ok := arg.(*ssa.Call); ok {
			if bi, isB := ap.Call.Value.(*ssa.Builtin); isB && bi.Name() == "append" && len(ap.Call.Args) == 2 && appendedPrefix(ap.Call.Args[0]) && throughCell(strip(ap.Call.Args[1])) == data {
				writes = append(writes, wcall{cv, "frame"})
				c.Ok(rule, key+" (assembled frame)", pos, "append(AppendUint32(<empty>, uint32(len(data))), data...)")
				continue
			}
		}
		sl, isSl := arg.(*ssa.Slice)
		if !isSl {
			c.Und(rule, key, pos, "the value written is neither the data parameter nor a slice of a local buffer: "+w.Short(arg))
			continue
		}
		lowZero := sl.Low == nil
		if k, isK := intConst(sl.Low); sl.Low != nil && isK && k == 0 {
			lowZero = true
		}
		n := arrayLen(sl.X.Type())
		if lowZero && n == 4 && (sl.High == nil || isConstInt(sl.High, 4)) {
			// the 4-byte prefix
			okP := prefixPut(sl.X, cv)
			c.Check(okP, rule, key+" (prefix)", pos, "4-byte buffer holding PutUint32(uint32(len(data)))", "the 4-byte prefix written is not the big-endian length of the data")
			if okP {
				writes = append(writes, wcall{cv, "prefix"})
			}
			continue
		}
		// a frame assembled in a buffer: prefix at 0, payload copied behind it without truncation, written up to 4+len
		if !lowZero {
			c.Und(rule, key, pos, "a slice of a buffer not starting at 0 is written")
			continue
		}
		okFrame := prefixPut(sl.X, cv)
		why := ""
		if !okFrame {
			why = "the buffer does not start with the big-endian length of the data"
		}
		var cp *ssa.Call
		for _, call := range callsIn(wr) {
			cc, ok := call.(*ssa.Call)
			if !ok {
				continue
			}
			if bi, isB := cc.Call.Value.(*ssa.Builtin); !isB || bi.Name() != "copy" || len(cc.Call.Args) != 2 {
				continue
			}
			dst, isSl := strip(cc.Call.Args[0]).(*ssa.Slice)
			if !isSl || dst.X != sl.X || !isConstInt(dst.Low, 4) || dst.High != nil {
				continue
			}
			if throughCell(strip(cc.Call.Args[1])) == data && InstrDominates(cc, cv) {
				cp = cc
			}
		}
		if cp == nil {
			okFrame = false
			why = "no copy(buffer[4:], data) precedes the write"
		} else {
			room := bc.lenLB(cp.Call.Args[0], cp.Block())
			if n > 0 {
				room = n - 4
			}
			need := int64(posInf)
			if lc := lenCallOf(wr, data, cp); lc != nil {
				need = bc.rng(lc, cp.Block()).hi
			}
			if need == posInf || room < need {
				okFrame = false
				why = "the copy of the payload into the frame buffer may truncate it: room for " + itoa(int(room)) + " bytes behind the prefix, payloads of up to " + boundStr(need) + " bytes reach it"
			}
		}
		if okFrame {
			// written up to 4 + len(data) (or 4 + the number of bytes copied, which is len(data) once truncation is excluded)
			okHi := false
			if add, isAdd := strip(sl.High).(*ssa.BinOp); sl.High != nil && isAdd && add.Op.String() == "+" {
				x, y := add.X, add.Y
				if isConstInt(y, 4) {
					x, y = y, x
				}
				if isConstInt(x, 4) && (isLenData(y) || throughCell(strip(y)) == ssa.Value(cp)) {
					okHi = true
				}
			}
			if !okHi {
				okFrame = false
				why = "the frame is not written up to 4+len(data): " + w.Short(sl.High)
			}
		}
		c.Check(okFrame, rule, key+" (assembled frame)", pos, "prefix, then the whole payload, copied with room to spare", why)
		if okFrame {
			writes = append(writes, wcall{cv, "frame"})
		}
	}
	// every successful return has put prefix and payload on the wire, in that order
	nRet := 0
	for _, r := range w.MayBeNilReturns(wr) {
		if wr.Recover != nil && r.Block() == wr.Recover {
			continue
		}
		nRet++
		ok := false
		for _, a := range writes {
			if a.kind == "frame" && InstrDominates(a.call, r) {
				ok = true
			}
			if a.kind != "prefix" {
				continue
			}
			for _, b := range writes {
				if b.kind == "body" && InstrDominates(a.call, b.call) && InstrDominates(b.call, r) {
					ok = true
				}
			}
		}
		c.Check(ok, rule, shortFn(wr)+"|success only after the whole frame was written", w.Pos(r.Pos()), "length prefix, then the payload", "the writer can report success without having written the length prefix followed by the whole payload")
	}
	c.Floor(rule, nRet, 1, "successful returns of "+shortFn(wr))
}

func isConstInt(v ssa.Value, k int64) bool {
	if v == nil {
		return false
	}
	n, ok := intConst(v)
	return ok && n == k
}

func boundStr(n int64) string {
	if n == posInf {
		return "unbounded"
	}
	return itoa(int(n))
}

// lenCallOf: some len(data) value of fn usable at instruction at (a len call on data that dominates it), else a
// fresh reading through the facts of at's block is made from any len call on data.
func lenCallOf(fn *ssa.Function, data ssa.Value, at ssa.Instruction) ssa.Value {
	var any ssa.Value
	for _, call := range callsIn(fn) {
		cv, ok := call.(*ssa.Call)
		if !ok {
			continue
		}
		if la := lenArg(cv); la != nil && throughCell(strip(la)) == data {
			any = cv
			if InstrDominates(cv, at) {
				return cv
			}
		}
	}
	return any
}
