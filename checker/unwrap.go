package main

import (
	"go/token"
	"go/types"

	"golang.org/x/tools/go/ssa"
)

// unwrapObserver: fn is an exported entry point that only observes the function doing the work - it calls one
// unexported function of its package with exactly its own parameters, returns exactly that call's results, and
// otherwise only measures and reports (clock reads, log lines, metrics: calls that are not given any pointer- or
// interface-typed parameter of fn and that are not synchronisation). Returns the worker (fn itself when fn has
// another shape), so that rules written about the operation read the function that holds it.
func (w *World) unwrapObserver(fn *ssa.Function) *ssa.Function {
	for hop := 0; hop < 2 && fn != nil; hop++ {
		h := w.observedWorker(fn)
		if h == nil {
			return fn
		}
		fn = h
	}
	return fn
}

func (w *World) observedWorker(fn *ssa.Function) *ssa.Function {
	if fn == nil || len(fn.Blocks) == 0 || fn.Parent() != nil || fn.Synthetic != "" {
		return nil
	}
	var target *ssa.Call
	for _, call := range callsIn(fn) {
		cv, ok := call.(*ssa.Call)
		if !ok {
			continue
		}
		h := cv.Call.StaticCallee()
		if h == nil || cv.Call.IsInvoke() || h.Pkg == nil || h.Pkg != fn.Pkg || token.IsExported(h.Name()) || len(h.Blocks) == 0 || h.Parent() != nil {
			continue
		}
		if len(cv.Call.Args) != len(fn.Params) || resultProjection(h.Signature.Results(), fn.Signature.Results()) == nil {
			continue
		}
		same := true
		for i, a := range cv.Call.Args {
			if throughCell(strip(a)) != ssa.Value(fn.Params[i]) {
				// a parameter captured by a deferred closure is read from its cell
				same = false
			}
		}
		if !same {
			continue
		}
		if target != nil {
			return nil
		}
		target = cv
	}
	if target == nil {
		return nil
	}
	h := target.Call.StaticCallee()
	if len(w.callSites(h)) != 1 {
		return nil
	}
	// every return hands back the worker's results, position by position - or, written out per outcome, nil for the
	// error where the worker's error is known nil, and the zero value of another result where the worker failed and
	// itself returns that zero value with every error
	nRes := h.Signature.Results().Len()
	proj := resultProjection(h.Signature.Results(), fn.Signature.Results())
	ei := errorResultIndex(h)
	var errV ssa.Value
	if ei >= 0 {
		if nRes == 1 {
			errV = target
		} else {
			errV = extractOf(target, ei)
		}
	}
	zeroOnError := func(i int) bool {
		n := 0
		for _, r := range liveReturns(h) {
			allNil := true
			for _, lf := range w.leaves(r.Results[ei], r, false) {
				if !isNilConst(strip(lf.Val)) {
					allNil = false
				}
			}
			if allNil {
				continue // a success return of the worker
			}
			n++
			for _, lf := range w.leaves(r.Results[i], r, false) {
				c, isC := strip(lf.Val).(*ssa.Const)
				if !isC || !(c.IsNil() || c.Value == nil) {
					return false
				}
			}
		}
		return n > 0
	}
	ff := w.factsOf(fn)
	for _, r := range liveReturns(fn) {
		if fn.Recover != nil && r.Block() == fn.Recover {
			return nil
		}
		for k, res := range r.Results {
			i := proj[k] // the worker's result this position hands back
			lv := w.leaves(res, r, false)
			if len(lv) != 1 {
				return nil
			}
			v := throughCell(strip(lv[0].Val))
			if nRes == 1 && v == ssa.Value(target) {
				continue
			}
			if ex, ok := v.(*ssa.Extract); ok && ex.Tuple == ssa.Value(target) && ex.Index == i {
				continue
			}
			if c, isC := v.(*ssa.Const); isC && errV != nil && (c.IsNil() || c.Value == nil) {
				isNil, known := ff.KnownNil(r.Block(), errV)
				if i == ei && known && isNil {
					continue
				}
				if i != ei && known && !isNil && zeroOnError(i) {
					continue
				}
			}
			return nil
		}
	}
	// everything else only observes
	refParam := func(v ssa.Value) bool {
		for _, p := range fn.Params {
			if throughCell(strip(v)) != ssa.Value(p) {
				continue
			}
			switch p.Type().Underlying().(type) {
			case *types.Pointer, *types.Interface, *types.Slice, *types.Map, *types.Chan, *types.Signature:
				return true
			}
		}
		return false
	}
	observes := false
	for _, b := range fn.Blocks {
		for _, ins := range b.Instrs {
			if c, isCall := ins.(ssa.CallInstruction); isCall && ins != ssa.Instruction(target) {
				if _, isDefer := ins.(*ssa.Defer); !isDefer || c.Common().StaticCallee() != nil {
					observes = true
				}
			}
		}
	}
	if !observes {
		return nil // a plain delegation: the rules that follow delegations read it themselves
	}
	for _, b := range fn.Blocks {
		for _, ins := range b.Instrs {
			switch x := ins.(type) {
			case *ssa.Store:
				if _, isAlloc := x.Addr.(*ssa.Alloc); !isAlloc {
					return nil // writes something other than its own locals
				}
			case *ssa.MapUpdate, *ssa.Send, *ssa.Go, *ssa.Panic:
				return nil
			case ssa.CallInstruction:
				if ins == ssa.Instruction(target) {
					continue
				}
				cm := x.Common()
				if n := calleeName(x); len(n) >= 7 && n[:7] == "(*sync." {
					return nil
				}
				for k, a := range cm.Args {
					if refParam(a) {
						// handed to a repository function that only reads through it (a log helper)
						if callee := cm.StaticCallee(); callee != nil && !cm.IsInvoke() && w.InRepo(callee) && k < len(callee.Params) && readsOnly(w, callee.Params[k], 0) {
							continue
						}
						return nil
					}
				}
				if cm.IsInvoke() && refParam(cm.Value) {
					return nil
				}
			}
		}
	}
	return h
}

// readsOnly: the pointer-like value v (a parameter) is only read: compared, dereferenced for loads, its fields loaded,
// or handed to repository functions that do the same.
func readsOnly(w *World, v ssa.Value, depth int) bool {
	if depth > 3 || v.Referrers() == nil {
		return depth <= 3
	}
	for _, r := range *v.Referrers() {
		switch x := r.(type) {
		case *ssa.DebugRef, *ssa.BinOp, *ssa.If:
		case *ssa.UnOp:
			// a load of the pointee: a value copy
		case *ssa.FieldAddr:
			if x.Referrers() != nil {
				for _, rr := range *x.Referrers() {
					switch y := rr.(type) {
					case *ssa.UnOp, *ssa.DebugRef:
					case *ssa.FieldAddr:
						if !readsOnly(w, y, depth+1) {
							return false
						}
					default:
						return false
					}
				}
			}
		case *ssa.Store:
			if x.Addr == v {
				return false
			}
			if _, isAlloc := x.Addr.(*ssa.Alloc); !isAlloc {
				return false
			}
		case ssa.CallInstruction:
			cm := x.Common()
			callee := cm.StaticCallee()
			if callee == nil || cm.IsInvoke() || !w.InRepo(callee) || len(callee.Blocks) == 0 {
				return false
			}
			for k, a := range cm.Args {
				if a == v && (k >= len(callee.Params) || !readsOnly(w, callee.Params[k], depth+1)) {
					return false
				}
			}
		default:
			return false
		}
	}
	return true
}

// resultProjection maps each result of the entry point to the result of the worker it hands back: the worker's results are
// the entry point's, in order, possibly with plain numbers / flags / texts in between that exist for the observers only
// (a count for a metric). nil when the signatures do not fit.
func resultProjection(worker, entry *types.Tuple) []int {
	var proj []int
	j := 0
	for i := 0; i < entry.Len(); i++ {
		for j < worker.Len() && !types.Identical(worker.At(j).Type(), entry.At(i).Type()) {
			if b, ok := worker.At(j).Type().Underlying().(*types.Basic); !ok || b.Info()&(types.IsNumeric|types.IsBoolean|types.IsString) == 0 {
				return nil
			}
			j++
		}
		if j >= worker.Len() {
			return nil
		}
		proj = append(proj, j)
		j++
	}
	for ; j < worker.Len(); j++ {
		if b, ok := worker.At(j).Type().Underlying().(*types.Basic); !ok || b.Info()&(types.IsNumeric|types.IsBoolean|types.IsString) == 0 {
			return nil
		}
	}
	return proj
}
