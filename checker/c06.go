package main

import (
	"fmt"
	"go/constant"
	"go/token"
	"go/types"
	"regexp"
	"sort"
	"strings"

	"golang.org/x/tools/go/ssa"
)

func init() {
	register(&property{
		ID: "C06",
		Meta: propMeta{
			Level:       "Structural necessary conditions of 'attestation accepts only device-key signatures chaining to the roots': (R1) the signature check is reached only under the must-fact that chain verification of the device certificate against exactly the configured root pool (no time override) returned nil, is given the slot certificate's algorithm / to-be-signed bytes / signature and the device certificate's key, and its result is the attestation's only possibly-nil return; the root pool has one writer and is built from an empty pool by checked AppendCertsFromPEM; (R2) the algorithm switch, as a decision table over every x509 signature-algorithm constant x hash availability x key type, sends SHA-1/256/384/512-with-RSA on an RSA key to the PKCS#1 verifier with the hash of the same digest, rejects MD2/MD5, PSS, unknown algorithms and every non-RSA key, and the digest handed over is that hash of the signed bytes; (R3) both digest-identifier tables equal RFC 8017 (with / without NULL) and the standard library's table; (R4) the verifier's acceptance value is the conjunction of: EM[0]==0, EM[1]==1, EM[k-hLen:k]==digest, (EM[k-tLen_i:k-hLen]==prefix_i and EM[k-tLen_i-1]==0 for one of the two prefixes), and EM[j]==0xff for every j from 2 up to k-T-1 with T the matched prefix's total length - with all indices compared as linear forms - where EM is the signature raised to the key's own exponent modulo its own modulus and left-padded to k=(bits+7)/8, and a size guard rejects k < tLen+11. math/big, chain building and hash code are trusted. A differently shaped (but correct) verifier is reported undecided.",
			Technique:   "static analysis: must-fact gating, decision-table extraction, constant tables vs RFC/stdlib source, dependence slice of the acceptance value with linear index forms on go/ssa",
			Explanation: "The acceptance value of the hand-written PKCS#1 v1.5 verifier is a DAG of & and | over constant-time comparisons plus one loop-carried phi; the rule flattens it and matches every required comparison by the linear form of its indices.",
			Assumptions: []string{"crypto/x509 chain verification, math/big and crypto hash implementations", "subtle.ConstantTime* return 1 exactly on equality"},
			Trusted:     []string{"go/packages", "go/types", "go/ssa", "crypto/x509", "math/big"},
			RuleDoc: map[string]string{
				"R9.state":    "no memory of earlier calls: on the call tree only frozen package-level variables are touched (known exceptions listed with reasons), and no package-level object is handed out",
				"R1.chain":    "chain verification gates the signature check; arguments; root pool provenance",
				"R2.algo":     "decision table of the algorithm switch and key-type switch",
				"R3.prefixes": "digest-identifier tables",
				"R4.verifier": "structure of the PKCS#1 v1.5 acceptance value",
			},
		},
		Run: runC06,
	})
}

// ---- linear forms ----

type linForm struct {
	c     int64
	terms map[string]int64
}

func (l linForm) String() string {
	var ks []string
	for k := range l.terms {
		ks = append(ks, k)
	}
	sort.Strings(ks)
	s := fmt.Sprint(l.c)
	for _, k := range ks {
		s += fmt.Sprintf(" %+d*%s", l.terms[k], k)
	}
	return s
}

func (l linForm) equal(o linForm) bool {
	if l.c != o.c {
		return false
	}
	for k, v := range l.terms {
		if v != 0 && o.terms[k] != v {
			return false
		}
	}
	for k, v := range o.terms {
		if v != 0 && l.terms[k] != v {
			return false
		}
	}
	return true
}

func linAdd(a, b linForm, sign int64) linForm {
	out := linForm{c: a.c + sign*b.c, terms: map[string]int64{}}
	for k, v := range a.terms {
		out.terms[k] += v
	}
	for k, v := range b.terms {
		out.terms[k] += sign * v
	}
	return out
}

// lin computes the linear form of an integer value; atoms are named by the caller-supplied namer (stable names
// for the few values the rule knows) or by their canonical expression.
func lin(w *World, v ssa.Value, name func(ssa.Value) string) linForm {
	if k, ok := intConst(v); ok {
		return linForm{c: k, terms: map[string]int64{}}
	}
	if n := name(v); n != "" {
		return linForm{terms: map[string]int64{n: 1}}
	}
	if b, ok := v.(*ssa.BinOp); ok {
		switch b.Op {
		case token.ADD:
			return linAdd(lin(w, b.X, name), lin(w, b.Y, name), 1)
		case token.SUB:
			return linAdd(lin(w, b.X, name), lin(w, b.Y, name), -1)
		case token.MUL:
			if k, ok := intConst(b.X); ok {
				if _, both := intConst(b.Y); !both {
					x := lin(w, b.Y, name)
					out := linForm{c: x.c * k, terms: map[string]int64{}}
					for t, c := range x.terms {
						out.terms[t] = c * k
					}
					return out
				}
			}
			if k, ok := intConst(b.Y); ok {
				x := lin(w, b.X, name)
				out := linForm{c: x.c * k, terms: map[string]int64{}}
				for t, c := range x.terms {
					out.terms[t] = c * k
				}
				return out
			}
		}
	}
	if cv, ok := v.(*ssa.Convert); ok {
		return lin(w, cv.X, name)
	}
	return linForm{terms: map[string]int64{w.Expr(v): 1}}
}

func runC06(c *Ctx) {
	stateRule(c, "R9.state", []*ssa.Function{c.w.Method("attestation/yubiattest", "Attestor", "Attest")}, knownState)
	w := c.w
	tablesC06(c)
	attest := w.Method(attestPkg, "Attestor", "Attest")
	if attest == nil {
		c.Unresolved("R1.chain", "(*Attestor).Attest")
		return
	}
	c.Saw(attest)
	f := w.Facts(attest)
	// ---- R1 ----
	var verify *ssa.Call
	for _, call := range w.callsToDeep(attest, "(*crypto/x509.Certificate).Verify") {
		verify, _ = call.(*ssa.Call)
	}
	// the signature check: the repository function taking (x509.SignatureAlgorithm, signed, signature, key)
	var check *ssa.Call
	for _, call := range w.callsInDeep(attest) {
		if cv, ok := call.(*ssa.Call); ok {
			if callee := w.helperOf(cv); callee != nil && callee.Signature.Params().Len() == 4 && strings.HasSuffix(callee.Signature.Params().At(0).Type().String(), "crypto/x509.SignatureAlgorithm") {
				check = cv
				w.Opaque(callee)
			}
		}
	}
	if verify == nil || check == nil {
		c.Bad("R1.chain", "Attest|chain verification and signature check", w.FnPos(attest), "Attest no longer verifies the device certificate's chain and then checks the slot certificate's signature")
		return
	}
	c.Check(w.Expr(verify.Call.Args[0]) == "p1", "R1.chain", "Attest|chain of the device certificate", w.Pos(verify.Pos()), "f9Cert.Verify(...)", "chain verification is applied to something other than the device certificate: "+w.Short(verify.Call.Args[0]))
	// options literal
	okOpts := false
	if ld, ok := verify.Call.Args[1].(*ssa.UnOp); ok {
		if a, ok := ld.X.(*ssa.Alloc); ok {
			fs := FieldStores(attest, a)
			okOpts = len(fs) == 1 && len(fs["Roots"]) == 1 && w.Expr(fs["Roots"][0]) == "p0.roots"
			for fld := range fs {
				if fld != "Roots" {
					c.Bad("R1.chain", "Attest|verify option "+fld, w.Pos(a.Pos()), "chain verification sets "+fld+" (time override / relaxed usages change what 'chains to the roots at the current time' means)")
				}
			}
		}
	}
	c.Check(okOpts, "R1.chain", "Attest|verified against the configured root pool only", w.Pos(verify.Pos()), "VerifyOptions{Roots: a.roots}", "chain verification does not use exactly the configured root pool")
	isNil, known := f.KnownNil(check.Block(), extractOf(verify, 1))
	c.Check(known && isNil && w.DeepDominates(attest, verify, check), "R1.chain", "Attest|signature check only after the chain verified", w.Pos(check.Pos()), "must-fact Verify err == nil", "the signature check can run (and attestation succeed) without a successful chain verification")
	wantArgs := []string{"p2.SignatureAlgorithm", "p2.RawTBSCertificate", "p2.Signature", "p1.PublicKey"}
	okArgs := len(check.Call.Args) == 4
	for i, a := range check.Call.Args {
		if okArgs && w.Expr(a) != wantArgs[i] {
			okArgs = false
		}
	}
	c.Check(okArgs, "R1.chain", "Attest|signature check arguments", w.Pos(check.Pos()), "(attestCert.SignatureAlgorithm, attestCert.RawTBSCertificate, attestCert.Signature, f9Cert.PublicKey)", "the signature check is not given the slot certificate's algorithm/body/signature and the device certificate's key: "+exprList(w, check.Call.Args))
	for _, r := range w.MayBeNilReturns(attest) {
		ok := true
		for _, lf := range w.LeavesErr(r.Results[0], r) {
			if w.NonNil(lf.Val, lf.Facts) {
				continue
			}
			if lf.Val != ssa.Value(check) {
				// nil written out on the path where the check's result is known to be nil
				isNil, known := f.knownNilIn(lf.Facts, check)
				if !known {
					isNil, known = f.KnownNil(r.Block(), check)
				}
				if !(isNilConst(lf.Val) && known && isNil) {
					ok = false
				}
			}
		}
		c.Check(ok, "R1.chain", "Attest|success only if the signature check succeeded", w.Pos(r.Pos()), "the only possibly-nil result is the check's", "Attest can return nil without the signature check having returned nil")
	}
	// roots provenance
	if at := w.NamedType(attestPkg, "Attestor"); at != nil {
		n := 0
		for _, a := range w.FieldAccesses(at, "roots") {
			if a.Kind == "write" || a.Kind == "addr" || a.Kind == "addrcall" {
				n++
				st, isStore := a.Instr.(*ssa.Store)
				c.Check(isStore && a.Fn.Signature.Recv() == nil && w.Expr(st.Val) == "p0", "R1.chain", "root pool writer "+shortFn(a.Fn), w.Pos(a.Instr.Pos()), "constructor stores its pool parameter", "the root pool is replaced outside the constructor")
			}
		}
		c.Check(n == 1, "R1.chain", "root pool|single writer", "-", "one writer", itoa(n)+" writers")
	}
	if na := w.Func(attestPkg, "NewAttestor"); na != nil {
		c.Saw(na)
		nf := w.Facts(na)
		var pool *ssa.Call
		for _, call := range callsTo(na, "crypto/x509.NewCertPool") {
			pool, _ = call.(*ssa.Call)
		}
		for _, call := range callsTo(na, "crypto/x509.SystemCertPool") {
			c.Bad("R1.chain", "NewAttestor|system roots", w.Pos(call.Pos()), "the attestation root pool includes the system roots")
		}
		okPool := pool != nil
		nApp := 0
		if pool != nil {
			for _, call := range callsTo(na, "(*crypto/x509.CertPool).AppendCertsFromPEM") {
				cv := call.(*ssa.Call)
				nApp++
				if cv.Call.Args[0] != ssa.Value(pool) || !strings.HasPrefix(w.Expr(cv.Call.Args[1]), "call<os.ReadFile>(p") {
					okPool = false
				}
				// !ok -> error
				checked := false
				for _, r := range liveReturns(na) {
					if v, known := nf.KnownBool(r.Block(), cv); known && !v {
						checked = true
						for _, lf := range w.Leaves(r.Results[1], r) {
							if !w.NonNil(lf.Val, lf.Facts) {
								checked = false
							}
						}
					}
				}
				if !checked {
					okPool = false
				}
			}
			// the pool reaches the constructor
			reaches := false
			for _, r := range w.MayBeNilReturns(na) {
				if strings.Contains(w.Expr(r.Results[0]), "NewAttestorWithCAPool>(call<crypto/x509.NewCertPool>())") {
					reaches = true
				}
			}
			okPool = okPool && reaches && nApp >= 1
		}
		c.Check(okPool, "R1.chain", "NewAttestor|pool built empty and filled from the configured files, failures are errors", w.FnPos(na), "x509.NewCertPool + checked AppendCertsFromPEM(os.ReadFile(path))", "the root pool is not an empty pool filled only by checked AppendCertsFromPEM of the configured files")
	}

	// ---- R2 ----
	cs := check.Call.StaticCallee()
	c.Saw(cs)
	checkAlgoSwitch(c, cs)

	// ---- R4 ----
	var verifier *ssa.Function
	for _, call := range callsIn(cs) {
		if callee := call.Common().StaticCallee(); callee != nil && w.InRepo(callee) && callee.Signature.Params().Len() == 4 {
			if ptr, ok := callee.Signature.Params().At(0).Type().(*types.Pointer); ok && strings.HasSuffix(ptr.Elem().String(), "crypto/rsa.PublicKey") {
				verifier = callee
			}
		}
	}
	if verifier == nil {
		c.Unresolved("R4.verifier", "the function called from the signature check with an *rsa.PublicKey")
		return
	}
	c.Saw(verifier)
	checkVerifier(c, verifier)
}

func checkAlgoSwitch(c *Ctx, fn *ssa.Function) {
	w := c.w
	xp := w.ByPath["crypto/x509"]
	cp := w.ByPath["crypto"]
	if xp == nil || cp == nil {
		c.Unresolved("R2.algo", "crypto/x509 and crypto packages")
		return
	}
	algos := map[string]int64{}
	sc := xp.Types.Scope()
	for _, n := range sc.Names() {
		if k, ok := sc.Lookup(n).(*types.Const); ok {
			if nt, ok := k.Type().(*types.Named); ok && nt.Obj().Name() == "SignatureAlgorithm" {
				if i, exact := constant.Int64Val(k.Val()); exact {
					algos[n] = i
				}
			}
		}
	}
	hashes := map[string]int64{}
	for _, n := range []string{"SHA1", "SHA256", "SHA384", "SHA512", "MD5", "SHA224"} {
		if k, ok := cp.Types.Scope().Lookup(n).(*types.Const); ok {
			if i, exact := constant.Int64Val(k.Val()); exact {
				hashes[n] = i
			}
		}
	}
	var dom []absVal
	for _, v := range algos {
		dom = append(dom, absVal{K: avInt, I: v})
	}
	dom = append(dom, absVal{K: avInt, I: 99})
	spec := &dtSpec{
		Domain: map[string][]absVal{"algo": dom},
		OnCall: func(e *dtRun, call ssa.CallInstruction, args []absVal) (absVal, bool) {
			name := calleeName(call)
			switch {
			case name == "(crypto.Hash).Available":
				return absVal{K: avAtom, Name: "avail"}, true
			case name == "(crypto.Hash).New":
				h := e.resolve(args[0])
				return absVal{K: avNonNil, Tag: fmt.Sprintf("hasher(%d)", h.I)}, true
			case strings.HasSuffix(name, ".Write"):
				return absVal{K: avTuple, Tuple: []absVal{{K: avInt}, {K: avNil}}}, true
			case strings.HasSuffix(name, ".Sum"):
				return absVal{K: avNonNil, Tag: "digest:" + args[0].Tag}, true
			case strings.HasSuffix(name, "crypto/x509.InsecureAlgorithmError).Error"):
				return absVal{}, true
			}
			if callee := call.Common().StaticCallee(); callee != nil && w.InRepo(callee) && callee.Signature.Params().Len() == 4 && callee.Signature.Results().Len() == 1 {
				h := e.resolve(args[1])
				if e.need != "" {
					return absVal{}, true
				}
				tag := fmt.Sprintf("verify(hash=%d,%s,sig=%s)", h.I, args[2].Tag, w.Expr(call.Common().Args[3]))
				return absVal{K: avUnknown, Tag: tag}, true
			}
			return absVal{}, false
		},
		NoInline: map[string]bool{},
	}
	leaves, und := w.DecisionTable(fn, []absVal{{K: avAtom, Name: "algo"}, {K: avNonNil, Tag: "signed"}, {K: avNonNil, Tag: "sig"}, {K: avObject, Obj: "key"}}, spec)
	for _, u := range und {
		c.Und("R2.algo", "checkSignature|interpretable", w.FnPos(fn), u)
	}
	named, anon := dtAtomsUsed(leaves)
	rsaAtom := ""
	for _, a := range named {
		if strings.HasPrefix(a, "is:") && strings.HasSuffix(a, "rsa.PublicKey") {
			rsaAtom = a
		}
	}
	for _, a := range anon {
		c.Und("R2.algo", "checkSignature|condition "+a, w.FnPos(fn), "the algorithm/key switch branches on something unexpected: "+a)
	}
	if rsaAtom == "" {
		c.Bad("R2.algo", "checkSignature|RSA key arm", w.FnPos(fn), "no arm for an *rsa.PublicKey key was found")
		return
	}
	wantHash := map[string]string{"SHA1WithRSA": "SHA1", "SHA256WithRSA": "SHA256", "SHA384WithRSA": "SHA384", "SHA512WithRSA": "SHA512"}
	// algorithms that may map to a hash of the matching digest (harmless on an RSA key) or be rejected
	mayHash := map[string]string{"DSAWithSHA1": "SHA1", "ECDSAWithSHA1": "SHA1", "DSAWithSHA256": "SHA256", "ECDSAWithSHA256": "SHA256", "ECDSAWithSHA384": "SHA384", "ECDSAWithSHA512": "SHA512"}
	rows := 0
	nameOf := func(v int64) string {
		for n, x := range algos {
			if x == v {
				return n
			}
		}
		return fmt.Sprintf("SignatureAlgorithm(%d)", v)
	}
	otherKeyAtoms := []string{}
	for _, a := range named {
		if strings.HasPrefix(a, "is:") && a != rsaAtom {
			otherKeyAtoms = append(otherKeyAtoms, a)
		}
	}
	atoms := append([]string{"algo", "avail", rsaAtom}, otherKeyAtoms...)
	for _, val := range dtValuations(atoms, spec.Domain) {
		rows++
		an := nameOf(val["algo"].I)
		isRSA := val[rsaAtom].B
		avail := val["avail"].B
		ms := dtMatch(leaves, val)
		key := "checkSignature|" + an + " avail=" + boolStr(avail) + " rsaKey=" + boolStr(isRSA)
		if len(otherKeyAtoms) > 0 {
			for _, o := range otherKeyAtoms {
				key += " " + o + "=" + boolStr(val[o].B)
			}
		}
		if len(ms) == 0 {
			c.Und("R2.algo", key, w.FnPos(fn), "no path covers this case")
			continue
		}
		for _, l := range ms {
			got := "?"
			if len(l.Result) == 1 {
				switch {
				case l.Result[0].K == avNonNil || (l.Result[0].K == avObject):
					got = "error"
				case l.Result[0].K == avNil:
					got = "nil"
				case strings.HasPrefix(l.Result[0].Tag, "verify("):
					got = l.Result[0].Tag
				}
			}
			ok := false
			want := "error"
			if h, isW := wantHash[an]; isW && avail && isRSA {
				want = fmt.Sprintf("verify(hash=%d,digest:hasher(%d),sig=p2)", hashes[h], hashes[h])
				ok = got == want
			} else if h, isM := mayHash[an]; isM && avail && isRSA {
				want = fmt.Sprintf("error or verify with %s", h)
				ok = got == "error" || got == fmt.Sprintf("verify(hash=%d,digest:hasher(%d),sig=p2)", hashes[h], hashes[h])
			} else {
				ok = got == "error"
			}
			c.Check(ok, "R2.algo", key, w.FnPos(fn), want, "for this case the check yields "+got+", the statement requires "+want)
		}
	}
	c.Floor("R2.algo", rows, 60, "cases of the algorithm/key switch")
	// the hasher is written with the signed bytes: Write(p1) on the hash
	okWrite := false
	w.Focus(fn)
	for _, call := range w.callsInDeep(fn) {
		if call.Common().IsInvoke() && call.Common().Method.Name() == "Write" && w.ExprIn(fn, call.Common().Args[0]) == "p1" {
			okWrite = true
		}
	}
	c.Check(okWrite, "R2.algo", "checkSignature|digest of the signed bytes", w.FnPos(fn), "h.Write(signed)", "the digest is not computed over the to-be-signed bytes")
}

// symEnv binds the parameters of a helper being looked through to the values of the call under consideration (which
// live in the caller's environment).
type symEnv struct {
	bind map[*ssa.Parameter]ssa.Value
	up   *symEnv
}

// res resolves v through the environment chain: a bound parameter is the value handed over by the caller.
func (e *symEnv) res(v ssa.Value) (ssa.Value, *symEnv) {
	for i := 0; i < 8; i++ {
		p, ok := v.(*ssa.Parameter)
		if !ok || e == nil {
			return v, e
		}
		b, bound := e.bind[p]
		if !bound {
			return v, e
		}
		v, e = b, e.up
	}
	return v, e
}

func checkVerifier(c *Ctx, fn *ssa.Function) {
	w := c.w
	f := w.Facts(fn)
	und := func(what string) {
		c.Und("R4.verifier", "verifier|"+what, w.FnPos(fn), "the verifier no longer has the recognised shape: "+what)
	}
	// hash info call: (hashLen, prefix1, prefix2, err)
	var info *ssa.Call
	for _, call := range callsIn(fn) {
		if cv, ok := call.(*ssa.Call); ok {
			if callee := cv.Call.StaticCallee(); callee != nil && w.InRepo(callee) && callee.Signature.Results().Len() == 4 {
				info = cv
			}
		}
	}
	// ... or (hashLen, prefixes, err) with the two accepted encodings as the two byte-slice fields of one record
	var prefRec ssa.Value
	if info == nil {
		for _, call := range callsIn(fn) {
			cv, ok := call.(*ssa.Call)
			if !ok {
				continue
			}
			callee := cv.Call.StaticCallee()
			if callee == nil || !w.InRepo(callee) || callee.Signature.Results().Len() != 3 || errorResultIndex(callee) != 2 {
				continue
			}
			if st, isStruct := callee.Signature.Results().At(1).Type().Underlying().(*types.Struct); isStruct && st.NumFields() == 2 && isByteSeq(st.Field(0).Type()) && isByteSeq(st.Field(1).Type()) {
				info, prefRec = cv, extractOf(cv, 1)
			}
		}
	}
	if info == nil {
		und("hash-info call returning (hashLen, prefix1, prefix2, err)")
		return
	}
	hLen := extractOf(info, 0)
	var p1, p2, errInfo ssa.Value
	if prefRec != nil {
		errInfo = extractOf(info, 2)
	} else {
		p1, p2, errInfo = extractOf(info, 1), extractOf(info, 2), extractOf(info, 3)
	}
	// prefixRole: v is the first (1) or the second (2) accepted digest-identifier encoding handed back by the hash info
	prefixRole := func(v ssa.Value) int {
		if v == nil {
			return 0
		}
		v = throughCell(strip(v))
		if prefRec == nil {
			switch {
			case p1 != nil && v == p1:
				return 1
			case p2 != nil && v == p2:
				return 2
			}
			return 0
		}
		switch x := v.(type) {
		case *ssa.Field:
			if throughCell(strip(x.X)) == prefRec {
				return x.Field + 1
			}
		case *ssa.UnOp:
			if fa, ok := x.X.(*ssa.FieldAddr); ok {
				if a, isAlloc := fa.X.(*ssa.Alloc); isAlloc {
					if stores, ok := cellStores(a); ok && len(stores) == 1 && throughCell(strip(stores[0].Val)) == prefRec && len(FieldStores(a.Parent(), a)) == 0 {
						return fa.Field + 1
					}
				}
			}
		}
		return 0
	}
	c.Check(w.Expr(info.Call.Args[0]) == "p1" && w.Expr(info.Call.Args[1]) == "call<builtin:len>(p2)", "R4.verifier", "verifier|hash info for this hash and digest length", w.Pos(info.Pos()), "pkcs1v15HashInfo(hash, len(hashed))", "hash info is not requested for the given hash and the digest's length")
	c.Check(w.ErrEdgeEnds(fn, errInfo), "R4.verifier", "verifier|hash info error returned", w.Pos(info.Pos()), "error edge returns", "an unsupported hash / wrong digest length does not stop verification")
	// k
	var k ssa.Value
	for _, b := range fn.Blocks {
		for _, ins := range b.Instrs {
			if bin, ok := ins.(*ssa.BinOp); ok && bin.Op == token.QUO {
				if d, ok := intConst(bin.Y); ok && d == 8 {
					if add, ok := bin.X.(*ssa.BinOp); ok && add.Op == token.ADD {
						if s, ok := intConst(add.Y); ok && s == 7 && w.Expr(add.X) == "call<(*math/big.Int).BitLen>(p0.N)" {
							k = bin
						}
					}
				}
			}
		}
	}
	if k == nil {
		// (*rsa.PublicKey).Size() is that same quantity
		for _, call := range callsTo(fn, "(*crypto/rsa.PublicKey).Size") {
			if cv, ok := call.(*ssa.Call); ok && len(cv.Call.Args) == 1 && w.Expr(cv.Call.Args[0]) == "p0" {
				k = cv
			}
		}
	}
	if k == nil {
		und("k = (pub.N.BitLen()+7)/8")
		return
	}
	nameE := func(v ssa.Value, env *symEnv) string {
		la := lenArg(v)
		if la != nil {
			la, _ = env.res(la)
		}
		switch {
		case v == k:
			return "k"
		case v == hLen:
			return "hLen"
		case la != nil && prefixRole(la) == 1:
			return "len1"
		case la != nil && prefixRole(la) == 2:
			return "len2"
		}
		return ""
	}
	name := func(v ssa.Value) string { return nameE(v, nil) }
	L := func(v ssa.Value) linForm { return lin(w, v, name) }
	// LE: the linear form of v, looking through the parameters of the helpers being interpreted
	var LE func(v ssa.Value, env *symEnv) linForm
	LE = func(v ssa.Value, env *symEnv) linForm {
		v, env = env.res(v)
		if kk, ok := intConst(v); ok {
			return linForm{c: kk, terms: map[string]int64{}}
		}
		if n := nameE(v, env); n != "" {
			return linForm{terms: map[string]int64{n: 1}}
		}
		switch x := v.(type) {
		case *ssa.BinOp:
			switch x.Op {
			case token.ADD:
				return linAdd(LE(x.X, env), LE(x.Y, env), 1)
			case token.SUB:
				return linAdd(LE(x.X, env), LE(x.Y, env), -1)
			}
		case *ssa.Convert:
			return LE(x.X, env)
		}
		return lin(w, v, name)
	}
	mk := func(c0 int64, ts map[string]int64) linForm { return linForm{c: c0, terms: ts} }
	// em = leftPad(encrypt(_, pub, SetBytes(sig)).Bytes(), k)
	var em, emWrap *ssa.Call
	w.Focus(fn)
	for _, call := range callsIn(fn) {
		if cv, ok := call.(*ssa.Call); ok {
			if callee := cv.Call.StaticCallee(); callee != nil && w.InRepo(callee) && len(cv.Call.Args) == 2 && cv.Call.Args[1] == k {
				em = cv
			}
			// ... or a helper that recovers the encoded message from (key, signature, k) and pads it itself
			if callee := w.helperOf(cv); callee != nil && em == nil && len(cv.Call.Args) == 3 && cv.Call.Args[2] == k && isByteSeq(cv.Type()) {
				if inner, ok := w.canon(fn, cv).(*ssa.Call); ok && inner != cv && len(inner.Call.Args) == 2 && w.canon(fn, inner.Call.Args[1]) == k {
					emWrap, em = cv, inner
				}
			}
		}
	}
	// ... or the padding written in place: em := make([]byte, k); copy(em[k-min(len(m),k):], m)
	var emV ssa.Value
	var emIns ssa.Instruction
	var emSrc ssa.Value
	var padFn *ssa.Function
	if em != nil && emWrap != nil {
		emV, emIns, emSrc, padFn = emWrap, emWrap, em.Call.Args[0], em.Call.StaticCallee()
	} else if em != nil {
		emV, emIns, emSrc, padFn = em, em, em.Call.Args[0], em.Call.StaticCallee()
	} else {
		for _, b := range fn.Blocks {
			for _, ins := range b.Instrs {
				ms, ok := ins.(*ssa.MakeSlice)
				if !ok || ms.Len != k {
					continue
				}
				for _, call := range callsIn(fn) {
					cp, isCall := call.(*ssa.Call)
					if bi, isB := call.Common().Value.(*ssa.Builtin); !isCall || !isB || bi.Name() != "copy" {
						continue
					}
					sl, isSl := cp.Call.Args[0].(*ssa.Slice)
					if !isSl || sl.X != ssa.Value(ms) || sl.High != nil || sl.Low == nil {
						continue
					}
					src := cp.Call.Args[1]
					sub, isSub := sl.Low.(*ssa.BinOp)
					if !isSub || sub.Op != token.SUB || sub.X != k {
						continue
					}
					isLenSrc := func(v ssa.Value) bool { la := lenArg(v); return la != nil && w.Expr(la) == w.Expr(src) }
					okN := isLenSrc(sub.Y)
					if phi, isPhi := sub.Y.(*ssa.Phi); isPhi && len(phi.Edges) == 2 {
						okN = (isLenSrc(phi.Edges[0]) && phi.Edges[1] == k) || (isLenSrc(phi.Edges[1]) && phi.Edges[0] == k)
					}
					if okN {
						emV, emIns, emSrc = ms, cp, src
					}
				}
			}
		}
	}
	// ... or m.FillBytes(make([]byte, k)): the big-endian bytes of m left-padded to k (m is below the modulus, so it fits)
	var fillInt ssa.Value
	if emV == nil {
		for _, call := range callsIn(fn) {
			cv, isCall := call.(*ssa.Call)
			if !isCall || calleeName(cv) != "(*math/big.Int).FillBytes" || len(cv.Call.Args) != 2 {
				continue
			}
			if ms, isMs := strip(cv.Call.Args[1]).(*ssa.MakeSlice); isMs && ms.Len == k {
				emV, emIns, emSrc, fillInt = cv, cv, cv.Call.Args[0], cv.Call.Args[0]
			}
		}
	}
	if emV == nil {
		und("EM = leftPad(..., k)")
		return
	}
	emx := w.Expr(emSrc)
	if fillInt != nil {
		emx = "call<(*math/big.Int).Bytes>(" + w.Expr(fillInt) + ")"
		if hc, isCall := throughCell(strip(fillInt)).(*ssa.Call); isCall {
			if h := hc.Call.StaticCallee(); h != nil && w.InRepo(h) && h.Blocks != nil {
				c06OnlyExp(c, w, h)
			}
		}
	}
	// the exponentiation written as a statement on a fresh big.Int: m.Exp(c, e, N); m.Bytes()
	if bc, ok := strip(emSrc).(*ssa.Call); ok && calleeName(bc) == "(*math/big.Int).Bytes" && len(bc.Call.Args) == 1 {
		if a, isAlloc := strip(bc.Call.Args[0]).(*ssa.Alloc); isAlloc {
			var exp *ssa.Call
			others := 0
			for _, r := range *a.Referrers() {
				switch u := r.(type) {
				case *ssa.Call:
					switch {
					case u == bc:
					case calleeName(u) == "(*math/big.Int).Exp" && len(u.Call.Args) == 4 && u.Call.Args[0] == ssa.Value(a) && exp == nil:
						exp = u
					default:
						others++
					}
				case *ssa.DebugRef:
				default:
					others++
				}
			}
			if exp != nil && others == 0 && InstrDominates(exp, bc) {
				emx = "call<(*math/big.Int).Bytes>(" + w.Expr(exp) + ")"
			}
		}
	}
	// either through the repository's public-key helper (checked below) or the exponentiation written in place
	okEM := (strings.HasPrefix(emx, "call<(*math/big.Int).Bytes>(call<"+RepoMod+"/attestation/yubiattest.") && strings.Contains(emx, ",p0,call<(*math/big.Int).SetBytes>(alloc<math/big.Int>,p3))")) ||
		emx == "call<(*math/big.Int).Bytes>(call<(*math/big.Int).Exp>(alloc<math/big.Int>,call<(*math/big.Int).SetBytes>(alloc<math/big.Int>,p3),call<math/big.NewInt>(conv<int64>(p0.E)),p0.N))"
	c.Check(okEM, "R4.verifier", "verifier|EM is the signature raised with the device key", w.Pos(emIns.Pos()), "leftPad(encrypt(pub, SetBytes(sig)).Bytes(), k)", "the encoded message is not derived from the signature and the device key as expected: "+shortName(emx))
	// the helper form: what the helper hands back is the exponentiation's result on every path (no other source such
	// as a memoised value), and nothing else writes the big.Int holding it
	if bc, ok := strip(emSrc).(*ssa.Call); ok && calleeName(bc) == "(*math/big.Int).Bytes" && len(bc.Call.Args) == 1 {
		if hc, isCall := throughCell(strip(bc.Call.Args[0])).(*ssa.Call); isCall {
			if h := hc.Call.StaticCallee(); h != nil && w.InRepo(h) && h.Blocks != nil {
				c06OnlyExp(c, w, h)
			}
		}
	}
	// size guard
	guard := f.Any(emIns.Block(), func(l Lit) bool {
		bin, ok := l.V.(*ssa.BinOp)
		if !ok || bin.Op != token.LSS || l.Pol || bin.X != k {
			return false
		}
		return L(bin.Y).equal(mk(11, map[string]int64{"len1": 1, "hLen": 1}))
	})
	c.Check(guard, "R4.verifier", "verifier|size guard k >= tLen + 11", w.Pos(emIns.Pos()), "must-fact not (k < len(prefix1)+hLen+11)", "the modulus-size guard (at least 8 padding bytes) is missing or different")
	// acceptance value: the value compared with 1 whose failure returns an error; the nil return is under ok == 1
	var acc ssa.Value
	for _, r := range w.MayBeNilReturns(fn) {
		for l := range f.At(r.Block()) {
			bin, ok := l.V.(*ssa.BinOp)
			if !ok {
				continue
			}
			if one, isK := intConst(bin.Y); isK && one == 1 && ((bin.Op == token.NEQ && !l.Pol) || (bin.Op == token.EQL && l.Pol)) {
				if _, isConst := bin.X.(*ssa.Const); !isConst && isBoolOrInt(bin.X.Type()) {
					acc = bin.X
				}
			}
		}
	}
	if acc == nil {
		c.Bad("R4.verifier", "verifier|success only if the acceptance value is 1", w.FnPos(fn), "no possibly-nil return guarded by ok == 1 was found: verification can succeed unconditionally")
		return
	}
	// flatten
	type leaf struct {
		call *ssa.Call
		via  string // "and" | "or1" | "or2" | "loop"
		env  *symEnv
	}
	var leaves []leaf
	var ors []*ssa.BinOp
	var loopPhi *ssa.Phi
	var loopEnv *symEnv
	loopInHelper := false
	var flatten func(v ssa.Value, via string, env *symEnv, depth int)
	type seenKey struct {
		v   ssa.Value
		env *symEnv
	}
	seen := map[seenKey]bool{}
	flatten = func(v ssa.Value, via string, env *symEnv, depth int) {
		v, env = env.res(v)
		if seen[seenKey{v, env}] || depth > 40 {
			return
		}
		seen[seenKey{v, env}] = true
		switch x := v.(type) {
		case *ssa.Const:
			if one, ok := intConst(x); ok && one == 1 {
				return // the neutral element of the conjunction (a helper's `ok := 1`)
			}
		case *ssa.BinOp:
			switch x.Op {
			case token.AND:
				flatten(x.X, via, env, depth+1)
				flatten(x.Y, via, env, depth+1)
				return
			case token.OR:
				if via == "and" {
					ors = append(ors, x)
					flatten(x.X, "or1", env, depth+1)
					flatten(x.Y, "or2", env, depth+1)
					return
				}
			}
		case *ssa.Phi:
			if via == "and" && loopPhi == nil {
				loopPhi, loopEnv = x, env
				loopInHelper = x.Parent() != fn
				for _, e := range x.Edges {
					flatten(e, "and", env, depth+1)
				}
				return
			}
		case *ssa.Call:
			n := calleeName(x)
			if n == "crypto/subtle.ConstantTimeByteEq" || n == "crypto/subtle.ConstantTimeCompare" || n == "bytes.Equal" {
				v := via
				if loopPhi != nil && via == "and" && ((x.Parent() == fn && x.Block() != emIns.Block()) || (x.Parent() != fn && x.Parent() == loopPhi.Parent())) {
					v = "loop"
				}
				leaves = append(leaves, leaf{x, v, env})
				return
			}
			// a helper computing part of the acceptance value: its single returned value, parameters bound to this call
			if h := w.helperOf(x); h != nil && w.transparent(h) && h.Signature.Results().Len() == 1 && len(x.Call.Args) == len(h.Params) {
				var rv ssa.Value
				same := true
				for _, r := range liveReturns(h) {
					if rv != nil && r.Results[0] != rv {
						same = false
					}
					rv = r.Results[0]
				}
				if rv != nil && same {
					bind := map[*ssa.Parameter]ssa.Value{}
					for i, p := range h.Params {
						bind[p] = x.Call.Args[i]
					}
					c.Saw(h)
					flatten(rv, via, &symEnv{bind: bind, up: env}, depth+1)
					return
				}
			}
		}
		c.Und("R4.verifier", "verifier|acceptance operand "+w.Short(v), w.FnPos(fn), "an operand of the acceptance value is not a constant-time comparison, &, | or the loop-carried value")
	}
	flatten(acc, "and", nil, 0)
	_ = loopEnv
	// helpers to describe a leaf
	byteAt := func(l leaf) (idx linForm, val int64, ok bool) {
		if calleeName(l.call) != "crypto/subtle.ConstantTimeByteEq" {
			return
		}
		ld, isLd := l.call.Call.Args[0].(*ssa.UnOp)
		if !isLd {
			return
		}
		ia, isIA := ld.X.(*ssa.IndexAddr)
		if !isIA {
			return
		}
		if seq, _ := l.env.res(ia.X); seq != emV {
			return
		}
		v, isK := intConst(l.call.Call.Args[1])
		if !isK {
			return
		}
		return LE(ia.Index, l.env), v, true
	}
	sliceCmp := func(l leaf) (lo, hi linForm, other ssa.Value, ok bool) {
		if calleeName(l.call) != "crypto/subtle.ConstantTimeCompare" && calleeName(l.call) != "bytes.Equal" {
			return
		}
		for i := 0; i < 2; i++ {
			sl, isSl := l.call.Call.Args[i].(*ssa.Slice)
			if !isSl || sl.High == nil {
				continue
			}
			if seq, _ := l.env.res(sl.X); seq != emV {
				continue
			}
			other, _ := l.env.res(l.call.Call.Args[1-i])
			if sl.Low == nil {
				return mk(0, nil), LE(sl.High, l.env), other, true
			}
			return LE(sl.Low, l.env), LE(sl.High, l.env), other, true
		}
		return
	}
	find := func(via string, pred func(leaf) bool) bool {
		for _, l := range leaves {
			if (via == "" || l.via == via) && pred(l) {
				return true
			}
		}
		return false
	}
	// a leading byte required through a comparison of EM[a:b] (constant bounds) with a byte literal of that length
	litByte := func(l leaf, at, want int64) bool {
		lo, hi, o, ok := sliceCmp(l)
		if !ok || len(lo.terms) != 0 || len(hi.terms) != 0 || at < lo.c || at >= hi.c {
			return false
		}
		parts, ok := w.byteSeq(l.call.Parent(), o, 0)
		if !ok || int64(len(parts)) != hi.c-lo.c || parts[at-lo.c].one == nil {
			return false
		}
		v, isK := intConst(parts[at-lo.c].one)
		return isK && v == want
	}
	K := map[string]int64{"k": 1}
	c.Check(find("and", func(l leaf) bool {
		i, v, ok := byteAt(l)
		return ok && v == 0 && i.equal(mk(0, nil)) || litByte(l, 0, 0)
	}), "R4.verifier", "verifier|EM[0] == 0x00", w.FnPos(fn), "in the conjunction", "the leading 0x00 byte is no longer (conjunctively) required")
	c.Check(find("and", func(l leaf) bool {
		i, v, ok := byteAt(l)
		return ok && v == 1 && i.equal(mk(1, nil)) || litByte(l, 1, 1)
	}), "R4.verifier", "verifier|EM[1] == 0x01", w.FnPos(fn), "in the conjunction", "the block-type byte 0x01 is no longer (conjunctively) required")
	c.Check(find("and", func(l leaf) bool {
		lo, hi, o, ok := sliceCmp(l)
		return ok && w.Expr(o) == "p2" && lo.equal(mk(0, map[string]int64{"k": 1, "hLen": -1})) && hi.equal(mk(0, K))
	}), "R4.verifier", "verifier|EM[k-hLen:k] == digest", w.FnPos(fn), "in the conjunction", "the digest is not (conjunctively) compared at the end of the encoded message")
	c.Check(len(ors) == 1, "R4.verifier", "verifier|one disjunction (either digest-identifier encoding)", w.FnPos(fn), "(prefix1ok | prefix2ok)", fmt.Sprintf("expected exactly one '|' in the acceptance value, found %d", len(ors)))
	for i, spec := range []struct {
		via, ln string
		p       ssa.Value
	}{{"or1", "len1", p1}, {"or2", "len2", p2}} {
		okCmp := find(spec.via, func(l leaf) bool {
			lo, hi, o, ok := sliceCmp(l)
			return ok && prefixRole(o) == i+1 && lo.equal(mk(0, map[string]int64{"k": 1, spec.ln: -1, "hLen": -1})) && hi.equal(mk(0, map[string]int64{"k": 1, "hLen": -1}))
		})
		okSep := find(spec.via, func(l leaf) bool {
			ix, v, ok := byteAt(l)
			return ok && v == 0 && ix.equal(mk(-1, map[string]int64{"k": 1, spec.ln: -1, "hLen": -1}))
		})
		c.Check(okCmp, "R4.verifier", fmt.Sprintf("verifier|identifier encoding %d compared in place", i+1), w.FnPos(fn), "EM[k-tLen:k-hLen] == prefix", "the digest-identifier bytes are not compared at EM[k-tLen:k-hLen] for this encoding (or under the wrong side of the '|')")
		c.Check(okSep, "R4.verifier", fmt.Sprintf("verifier|separator for encoding %d", i+1), w.FnPos(fn), "EM[k-tLen-1] == 0x00", "the 0x00 separator before the identifier is not required for this encoding")
	}
	// padding loop
	okLoop := false
	var loopDetail string
	if loopPhi == nil {
		loopDetail = "no loop-carried acceptance value"
	} else {
		for _, l := range leaves {
			if l.via != "loop" {
				continue
			}
			ld, _ := l.call.Call.Args[0].(*ssa.UnOp)
			v, isK := intConst(l.call.Call.Args[1])
			if ld == nil || !isK || v != 255 {
				continue
			}
			ia, isIA := ld.X.(*ssa.IndexAddr)
			if !isIA {
				continue
			}
			// second admitted form: for _, b := range EM[2 : k-T-1] { ok &= b == 0xff }
			slSeq := ssa.Value(nil)
			if sl, isSl := ia.X.(*ssa.Slice); isSl {
				slSeq, _ = l.env.res(sl.X)
			}
			if sl, isSl := ia.X.(*ssa.Slice); isSl && slSeq == emV && sl.Max == nil && isForwardRangeIndex(ia.Index) {
				lowOK := false
				if lo, isK := intConst(sl.Low); sl.Low != nil && isK && lo == 2 {
					lowOK = true
				}
				highOK := false
				if sl.High != nil {
					hv, _ := l.env.res(sl.High)
					if sub1, ok := hv.(*ssa.BinOp); ok && sub1.Op == token.SUB {
						if one, ok := intConst(sub1.Y); ok && one == 1 {
							if sub2, ok := sub1.X.(*ssa.BinOp); ok && sub2.Op == token.SUB && sub2.X == k {
								if tphi, ok := sub2.Y.(*ssa.Phi); ok {
									highOK = checkTPhi(w, tphi, L, mk, ors)
								}
							}
						}
					}
				}
				// the range runs over the whole sub-slice: the loop condition compares the range index with len(sub-slice)
				full := false
				for lit := range w.factsOf(l.call.Parent()).Local(l.call.Block()) {
					if bin, ok := lit.V.(*ssa.BinOp); ok && bin.Op == token.LSS && lit.Pol && bin.X == ia.Index && lenArg(bin.Y) == ssa.Value(sl) {
						full = true
					}
				}
				accOK := false
				for _, e := range loopPhi.Edges {
					if b, ok := e.(*ssa.BinOp); ok && b.Op == token.AND && ((b.X == ssa.Value(loopPhi) && b.Y == ssa.Value(l.call)) || (b.Y == ssa.Value(loopPhi) && b.X == ssa.Value(l.call))) {
						accOK = true
					}
				}
				if lowOK && highOK && full && accOK {
					okLoop = true
				} else {
					loopDetail = fmt.Sprintf("range form: low=%v high=%v whole-range=%v accumulate=%v", lowOK, highOK, full, accOK)
				}
				continue
			}
			if seq, _ := l.env.res(ia.X); seq != emV {
				continue
			}
			iphi, isPhi := ia.Index.(*ssa.Phi)
			if !isPhi {
				continue
			}
			// counter: phi(2, i+1)
			init, step := int64(-1), false
			for _, e := range iphi.Edges {
				if kk, ok := intConst(e); ok {
					init = kk
				} else if b, ok := e.(*ssa.BinOp); ok && b.Op == token.ADD && b.X == ssa.Value(iphi) {
					if s, ok := intConst(b.Y); ok && s == 1 {
						step = true
					}
				}
			}
			// bound: i < k - T - 1, T = phi over {tLen1 | prefix1ok==1, tLen2 | prefix2ok==1, 0}
			boundOK := false
			for lit := range w.factsOf(l.call.Parent()).Local(l.call.Block()) {
				bin, ok := lit.V.(*ssa.BinOp)
				if !ok || bin.Op != token.LSS || !lit.Pol || bin.X != ssa.Value(iphi) {
					continue
				}
				// k - T - 1
				boundV, _ := l.env.res(bin.Y)
				if sub1, ok := boundV.(*ssa.BinOp); ok && sub1.Op == token.SUB {
					if one, ok := intConst(sub1.Y); ok && one == 1 {
						if sub2, ok := sub1.X.(*ssa.BinOp); ok && sub2.Op == token.SUB && sub2.X == k {
							if tphi, ok := sub2.Y.(*ssa.Phi); ok {
								boundOK = checkTPhi(w, tphi, L, mk, ors)
							}
						}
					}
				}
			}
			// accumulation: ok = ok & ByteEq (the back edge of the loop phi is AND(loopPhi, leaf))
			accOK := false
			for _, e := range loopPhi.Edges {
				if b, ok := e.(*ssa.BinOp); ok && b.Op == token.AND && ((b.X == ssa.Value(loopPhi) && b.Y == ssa.Value(l.call)) || (b.Y == ssa.Value(loopPhi) && b.X == ssa.Value(l.call))) {
					accOK = true
				}
			}
			if init == 2 && step && boundOK && accOK {
				okLoop = true
			} else {
				loopDetail = fmt.Sprintf("start=%d step=%v bound=%v accumulate=%v", init, step, boundOK, accOK)
			}
		}
	}
	c.Check(okLoop, "R4.verifier", "verifier|padding EM[2 .. k-T-2] == 0xff", w.FnPos(fn), "for j := 2; j < k-T-1; j++ { ok &= EM[j]==0xff } with T the matched encoding's length", "the 0xff padding run is not checked over the full range: "+loopDetail)
	// entry edge of the loop phi carries the straight-line conjunction (a '=' instead of '&=' would drop it)
	if loopPhi != nil {
		entryOK := false
		for _, e := range loopPhi.Edges {
			if b, ok := e.(*ssa.BinOp); ok && b.Op == token.AND && b.Block() == emIns.Block() {
				entryOK = true
			}
			// the loop sits in a helper that starts from 1 and whose result the verifier ANDs onto its conjunction
			if one, ok := intConst(e); ok && one == 1 && loopInHelper {
				entryOK = true
			}
		}
		c.Check(entryOK, "R4.verifier", "verifier|loop accumulates onto the header checks", w.FnPos(fn), "the loop's initial acceptance value is the conjunction computed before it", "the padding loop does not start from the conjunction of the header/digest/identifier checks")
	}
	// helpers
	checkVerifierHelpers(c, fn, info.Call.StaticCallee(), padFn)
}

// checkTPhi: T = phi{ tLen1 under prefix1ok == 1, tLen2 under prefix2ok == 1 (else), 0 otherwise }.
func checkTPhi(w *World, tphi *ssa.Phi, L func(ssa.Value) linForm, mk func(int64, map[string]int64) linForm, ors []*ssa.BinOp) bool {
	if len(ors) != 1 {
		return false
	}
	or := ors[0]
	saw1, saw2 := false, false
	for i, e := range tphi.Edges {
		ef := w.factsOnEdge(tphi.Block().Preds[i], tphi.Block())
		form := L(e)
		is := func(side ssa.Value) bool {
			for l := range ef {
				bin, ok := l.V.(*ssa.BinOp)
				if ok && bin.Op == token.EQL && l.Pol && bin.X == side {
					if one, ok := intConst(bin.Y); ok && one == 1 {
						return true
					}
				}
			}
			return false
		}
		switch {
		case form.equal(mk(0, map[string]int64{"len1": 1, "hLen": 1})):
			if !is(or.X) {
				return false
			}
			saw1 = true
		case form.equal(mk(0, map[string]int64{"len2": 1, "hLen": 1})):
			if !is(or.Y) {
				return false
			}
			saw2 = true
		case form.equal(mk(0, nil)):
			// neither matched: ok is already 0
		default:
			return false
		}
	}
	return saw1 && saw2
}

func checkVerifierHelpers(c *Ctx, verifier, info, pad *ssa.Function) {
	w := c.w
	if info != nil {
		c.Saw(info)
		f := w.Facts(info)
		nRes := info.Signature.Results().Len() // (hashLen, prefix1, prefix2, err) or (hashLen, prefixes, err)
		// hashLen = hash.Size(); inLen != hashLen -> error; both lookups comma-ok with !ok -> error
		okSize := false
		for _, call := range callsTo(info, "(crypto.Hash).Size") {
			if w.Expr(call.Common().Args[0]) == "p0" {
				okSize = true
			}
		}
		c.Check(okSize, "R4.verifier", "hash info|hashLen = hash.Size()", w.FnPos(info), "hash.Size()", "the digest length is not taken from the hash")
		nLook := 0
		for _, b := range info.Blocks {
			for _, ins := range b.Instrs {
				lk, ok := ins.(*ssa.Lookup)
				if !ok || !isHashKeyedGlobal(w, lk.X) {
					continue
				}
				nLook++
				if !lk.CommaOk {
					c.Bad("R4.verifier", "hash info|missing identifier is an error ("+shortName(w.Expr(lk.X))+")", w.Pos(lk.Pos()), "the digest-identifier table is read without testing that the hash has an entry: a hash without identifier is verified against an empty prefix")
					continue
				}
				okv := extractOfV(lk, 1)
				// every return that can be reached after the lookup and may report success knows the entry was found
				good := okv != nil
				nAfter := 0
				reach := ReachableAvoiding(lk, nil)
				for _, r := range liveReturns(info) {
					if !reach(r) || len(r.Results) != nRes {
						continue
					}
					nAfter++
					mayNil := false
					for _, lf := range w.Leaves(r.Results[nRes-1], r) {
						if !w.NonNil(lf.Val, lf.Facts) {
							mayNil = true
						}
					}
					if !mayNil {
						continue
					}
					if v, known := f.KnownBool(r.Block(), okv); !known || !v {
						good = false
					}
				}
				good = good && nAfter > 0
				c.Check(good && w.Expr(lk.Index) == "p0", "R4.verifier", "hash info|missing identifier is an error ("+shortName(w.Expr(lk.X))+")", w.Pos(lk.Pos()), "comma-ok lookup by the hash; !ok returns an error", "a hash without a digest identifier in this table is not refused")
			}
		}
		c.Floor("R4.verifier", nLook, 1, "digest-identifier table lookups")
		// the two identifiers handed back are the two encodings looked up for this hash: on every return of a looked-up
		// value, results 1 and 2 are the elements of two different tables, or two different fields of one element
		origin := func(v ssa.Value) string {
			v = throughCell(strip(v))
			fld := ""
			if fv, ok := v.(*ssa.Field); ok {
				fld, v = "."+fieldName(fv.X.Type(), fv.Field), throughCell(strip(fv.X))
			}
			if ld, ok := v.(*ssa.UnOp); ok && ld.Op == token.MUL {
				if fa, isFA := ld.X.(*ssa.FieldAddr); isFA {
					fld = "." + fieldName(fa.X.Type(), fa.Field)
					if al, isAl := fa.X.(*ssa.Alloc); isAl {
						if sts, okS := cellStores(al); okS && len(sts) == 1 {
							v = throughCell(strip(sts[0].Val))
						}
					}
				}
			}
			ex, ok := v.(*ssa.Extract)
			if !ok || ex.Index != 0 {
				return ""
			}
			lk, ok := ex.Tuple.(*ssa.Lookup)
			if !ok || !lk.CommaOk || !isHashKeyedGlobal(w, lk.X) || w.Expr(lk.Index) != "p0" {
				return ""
			}
			return w.Expr(lk.X) + fld
		}
		nPair := 0
		for _, r := range liveReturns(info) {
			if nRes == 3 && len(r.Results) == 3 {
				// the record handed back is the element looked up for this hash (its two fields are the two encodings);
				// a zero record goes with the direct-signing case and the errors
				for _, l1 := range w.Leaves(r.Results[1], r) {
					v := throughCell(strip(l1.Val))
					if cst, isConst := v.(*ssa.Const); isConst && cst.Value == nil {
						continue // zero record
					}
					if ld, isLd := v.(*ssa.UnOp); isLd {
						if al, isAl := ld.X.(*ssa.Alloc); isAl && len(FieldStores(al.Parent(), al)) == 0 {
							if sts, okS := cellStores(al); okS && len(sts) == 0 {
								continue // zero record
							}
						}
					}
					nPair++
					o := origin(l1.Val)
					c.Check(o != "", "R4.verifier", "hash info|the two identifiers are the two looked-up encodings", w.Pos(r.Pos()), "the element of "+o+" for this hash", "the identifiers handed to the verifier are not the element of the digest-identifier table for this hash: "+w.Short(l1.Val))
				}
				continue
			}
			if len(r.Results) != 4 {
				continue
			}
			for _, l1 := range w.Leaves(r.Results[1], r) {
				if isNilConst(l1.Val) {
					continue
				}
				for _, l2 := range w.Leaves(r.Results[2], r) {
					if isNilConst(l2.Val) {
						continue
					}
					nPair++
					o1, o2 := origin(l1.Val), origin(l2.Val)
					c.Check(o1 != "" && o2 != "" && o1 != o2, "R4.verifier", "hash info|the two identifiers are the two looked-up encodings", w.Pos(r.Pos()), o1+" and "+o2,
						"the identifiers handed to the verifier are not the elements of the two digest-identifier tables for this hash: "+w.Short(l1.Val)+" / "+w.Short(l2.Val))
				}
			}
		}
		c.Floor("R4.verifier", nPair, 1, "returns of looked-up identifiers")
		// inLen mismatch -> error
		okLen := false
		for _, r := range liveReturns(info) {
			if f.Any(r.Block(), func(l Lit) bool {
				bin, ok := l.V.(*ssa.BinOp)
				return ok && bin.Op == token.NEQ && l.Pol && w.Expr(bin.X) == "p1" && strings.Contains(w.Expr(bin.Y), "crypto.Hash).Size")
			}) {
				okLen = true
				for _, lf := range w.Leaves(r.Results[nRes-1], r) {
					if !w.NonNil(lf.Val, lf.Facts) {
						okLen = false
					}
				}
			}
		}
		c.Check(okLen, "R4.verifier", "hash info|digest length must equal the hash size", w.FnPos(info), "inLen != hashLen => error", "a digest of the wrong length is not refused")
	}
	if pad != nil {
		c.Saw(pad)
		// out = make([]byte, size); copy(out[len(out)-min(len(in),size):], in)
		okMake, okCopy := false, false
		for _, b := range pad.Blocks {
			for _, ins := range b.Instrs {
				if ms, ok := ins.(*ssa.MakeSlice); ok && w.Expr(ms.Len) == "p1" {
					okMake = true
				}
			}
		}
		for _, call := range callsIn(pad) {
			if b, ok := call.Common().Value.(*ssa.Builtin); ok && b.Name() == "copy" {
				if sl, ok := call.Common().Args[0].(*ssa.Slice); ok && sl.High == nil && sl.Low != nil && w.Expr(call.Common().Args[1]) == "p0" {
					lo := strings.Replace(w.Expr(sl.Low), "call<builtin:len>(makeslice<[]byte>(p1))", "p1", 1)
					okCopy = strings.HasPrefix(lo, "(p1-phi{") && strings.Contains(lo, "call<builtin:len>(p0)") && strings.Contains(lo, "p1")
					// the builtin: size - min(len(in), size)
					if lo == "(p1-call<builtin:min>(call<builtin:len>(p0),p1))" || lo == "(p1-call<builtin:min>(p1,call<builtin:len>(p0)))" {
						okCopy = true
					}
				}
			}
		}
		c.Check(okMake && okCopy, "R4.verifier", "leftPad|pads on the left to exactly k bytes", w.FnPos(pad), "out := make([]byte,size); copy(out[size-min(len(in),size):], in)", "leftPad does not left-pad the value to exactly the modulus length")
	}
	// the public-key operation: every m.Exp(...) on the verifier's tree raises the signature (SetBytes(sig)) to the
	// key's own exponent modulo the key's own modulus
	nExp := 0
	w.Focus(verifier)
	for _, ec := range w.callsToDeep(verifier, "(*math/big.Int).Exp") {
		args := ec.Common().Args
		if len(args) != 4 {
			continue
		}
		nExp++
		g := ec.Parent()
		c.Saw(g)
		// rendered in the verifier's frame: directly, or - for a helper that keeps its own frame - in the helper's terms
		// with its parameters replaced by what its one call on the verifier's tree passes
		render := func(v ssa.Value) string {
			ex := w.ExprIn(verifier, v)
			if g == verifier || !paramRE.MatchString(ex) || w.transparent(g) {
				return ex
			}
			sites := w.sitesIn(verifier, g)
			if len(sites) != 1 {
				return ex
			}
			own := w.ExprIn(g, v)
			return paramRE.ReplaceAllStringFunc(own, func(m string) string {
				i := atoi(m[1:])
				if a := sites[0].Common().Args; i < len(a) {
					return w.ExprIn(verifier, a[i])
				}
				return m
			})
		}
		base, exp, mod := render(args[1]), render(args[2]), render(args[3])
		ok := exp == "call<math/big.NewInt>(conv<int64>(p0.E))" && mod == "p0.N" && strings.Contains(base, "SetBytes>(") && strings.HasSuffix(base, ",p3)")
		c.Check(ok, "R4.verifier", "encrypt|m^E mod N with the key's own exponent and modulus", w.Pos(ec.Pos()), "c.Exp(m, big.NewInt(int64(pub.E)), pub.N)", "the public-key operation does not use the device key's own exponent and modulus (e.g. a hard-wired 65537): base "+shortName(base)+", exponent "+shortName(exp)+", modulus "+shortName(mod))
	}
	c.Floor("R4.verifier", nExp, 1, "modular exponentiations on the verifier's tree")
}

// isHashKeyedGlobal: v is a load of a package-level map of the attestation package keyed by crypto.Hash.
func isHashKeyedGlobal(w *World, v ssa.Value) bool {
	ld, ok := v.(*ssa.UnOp)
	if !ok {
		return false
	}
	g, ok := ld.X.(*ssa.Global)
	if !ok || g.Pkg == nil || !strings.HasSuffix(g.Pkg.Pkg.Path(), attestPkg) {
		return false
	}
	m, ok := g.Type().(*types.Pointer).Elem().Underlying().(*types.Map)
	return ok && namedIs(m.Key(), "crypto", "Hash")
}

func isBoolOrInt(t types.Type) bool {
	b, ok := t.Underlying().(*types.Basic)
	return ok && b.Info()&(types.IsInteger|types.IsBoolean) != 0
}

var paramRE = regexp.MustCompile(`\bp[0-9]+\b`)

// c06OnlyExp: helper h (the public-key operation) returns, on every path, the result of a (*big.Int).Exp call made
// on that path - the call's value or its receiver - and no other method writes that receiver.
func c06OnlyExp(c *Ctx, w *World, h *ssa.Function) {
	var exps []*ssa.Call
	for _, call := range callsIn(h) {
		if cv, ok := call.(*ssa.Call); ok && calleeName(cv) == "(*math/big.Int).Exp" && len(cv.Call.Args) == 4 {
			exps = append(exps, cv)
		}
	}
	if len(exps) == 0 {
		return // the exponentiation sits deeper; the census of Exp calls below covers its arguments
	}
	c.Saw(h)
	key := shortFn(h) + "|returns the exponentiation's result on every path"
	for _, r := range liveReturns(h) {
		if len(r.Results) == 0 {
			continue
		}
		good := true
		for _, lf := range w.leaves(r.Results[0], r, false) {
			v := throughCell(strip(lf.Val))
			ok := false
			for _, e := range exps {
				if (v == ssa.Value(e) || v == throughCell(strip(e.Call.Args[0]))) && InstrDominates(e, r) {
					ok = true
				}
			}
			if !ok {
				good = false
			}
		}
		c.Check(good, "R4.verifier", key, w.Pos(r.Pos()), "every value returned is c.Exp(...) computed on that path", shortFn(h)+" can hand back a value that was not computed by the exponentiation on this path (a memoised or defaulted result): the encoded message would not be sig^e mod N of this key")
	}
	for _, e := range exps {
		recv := throughCell(strip(e.Call.Args[0]))
		for _, call := range callsIn(h) {
			cv, ok := call.(*ssa.Call)
			if !ok || cv == e || len(cv.Call.Args) == 0 || throughCell(strip(cv.Call.Args[0])) != recv {
				continue
			}
			callee := cv.Call.StaticCallee()
			if callee == nil || !strings.HasPrefix(fnName(callee), "(*math/big.Int).") {
				continue
			}
			if res := callee.Signature.Results(); res.Len() == 1 && strings.HasSuffix(res.At(0).Type().String(), "math/big.Int") {
				c.Bad("R4.verifier", shortFn(h)+"|only the exponentiation writes its result", w.Pos(cv.Pos()), "the big.Int receiving the exponentiation is also written by "+shortName(fnName(callee)))
			}
		}
	}
}
