package main

import (
	"go/token"
	"go/types"

	"golang.org/x/tools/go/ssa"
)

// inPlaceMutators: library functions that write into the backing store of their (first) argument.
var inPlaceMutators = map[string]int{
	"slices.Sort": 0, "slices.SortFunc": 0, "slices.SortStableFunc": 0, "slices.Compact": 0, "slices.CompactFunc": 0,
	"slices.Reverse": 0, "slices.Delete": 0, "slices.DeleteFunc": 0, "slices.Insert": 0, "slices.Replace": 0,
	"sort.Strings": 0, "sort.Ints": 0, "sort.Float64s": 0, "sort.Slice": 0, "sort.SliceStable": 0, "sort.Sort": 0, "sort.Stable": 0,
	"maps.DeleteFunc": 0, "maps.Copy": 0, "maps.Insert": 0,
	"builtin:copy": 0, "builtin:clear": 0, "builtin:delete": 0,
}

type aliasMutation struct {
	at   ssa.Instruction
	fn   *ssa.Function
	what string
}

// aliasMutations finds the places where storage reachable from a seed value is written in place: seeds are the
// values accepted by seed in the functions of roots; what shares their storage is followed through field loads,
// getter results of reference kind, reslicing, conversions, phis, interface boxing, and into and out of the repository
// functions they are handed to. Reported: stores through an element/field address of such a value, map updates,
// and calls of the in-place library functions (sorting, compacting, copy, clear, delete) on it.
func (w *World) aliasMutations(roots []*ssa.Function, seed func(ssa.Value) bool) []aliasMutation {
	tainted := map[ssa.Value]bool{}
	short := map[ssa.Value]bool{} // views of the shared storage that end before its last element: appending overwrites what follows
	fns := map[*ssa.Function]bool{}
	var order []*ssa.Function
	addFn := func(f *ssa.Function) {
		if f != nil && len(f.Blocks) > 0 && !fns[f] {
			fns[f] = true
			order = append(order, f)
		}
	}
	for _, r := range roots {
		addFn(r)
	}
	refKind := func(t types.Type) bool {
		switch t.Underlying().(type) {
		case *types.Slice, *types.Map, *types.Pointer, *types.Interface:
			return true
		}
		return false
	}
	changed := true
	mark := func(v ssa.Value) {
		if v != nil && !tainted[v] {
			tainted[v] = true
			changed = true
		}
	}
	markShort := func(v ssa.Value) {
		if v != nil && !short[v] {
			short[v] = true
			changed = true
		}
	}
	for iter := 0; changed && iter < 40; iter++ {
		changed = false
		for i := 0; i < len(order); i++ {
			f := order[i]
			for _, p := range f.Params {
				if seed(p) {
					mark(p)
				}
			}
			for _, b := range f.Blocks {
				for _, ins := range b.Instrs {
					v, isVal := ins.(ssa.Value)
					if isVal && seed(v) {
						mark(v)
					}
					switch x := ins.(type) {
					case *ssa.UnOp:
						if x.Op == token.MUL && refKind(x.Type()) {
							switch a := x.X.(type) {
							case *ssa.FieldAddr:
								if tainted[a.X] {
									mark(x)
								}
							case *ssa.IndexAddr:
								if tainted[a.X] {
									mark(x)
								}
							}
						}
					case *ssa.FieldAddr:
						if tainted[x.X] {
							mark(x) // the address of a part of the shared storage
						}
					case *ssa.IndexAddr:
						if tainted[x.X] {
							mark(x)
						}
					case *ssa.Slice:
						if tainted[x.X] {
							mark(x)
							// x[lo:hi:hi] has no room behind it: appending to it allocates, nothing is overwritten
							full := false
							if x.Max != nil && x.High != nil {
								if x.Max == x.High {
									full = true
								} else if a, okA := intConst(x.Max); okA {
									if b, okB := intConst(x.High); okB && a == b {
										full = true
									}
								}
							}
							if (x.High != nil || short[x.X]) && !full {
								markShort(x)
							}
						}
					case *ssa.ChangeType:
						if tainted[x.X] {
							mark(x)
						}
					case *ssa.Convert:
						if tainted[x.X] && refKind(x.Type()) && refKind(x.X.Type()) {
							mark(x)
						}
					case *ssa.MakeInterface:
						if tainted[x.X] {
							mark(x)
						}
					case *ssa.TypeAssert:
						if tainted[x.X] {
							mark(x)
						}
					case *ssa.Extract:
						if tainted[x.Tuple] && refKind(x.Type()) {
							mark(x)
						}
					case *ssa.Phi:
						for _, e := range x.Edges {
							if tainted[e] {
								mark(x)
							}
							if short[e] {
								markShort(x)
							}
						}
					case *ssa.Lookup:
						if tainted[x.X] && refKind(x.Type()) {
							mark(x)
						}
					case *ssa.Call:
						cm := x.Common()
						if b, isB := cm.Value.(*ssa.Builtin); isB && b.Name() == "append" && len(cm.Args) > 0 && short[cm.Args[0]] {
							// the result of appending onto such a view is (while it fits) the same storage, one element longer
							mark(x)
							markShort(x)
							continue
						}
						if cm.IsInvoke() {
							// a getter of the shared object that hands out a part of it
							if tainted[cm.Value] && len(cm.Args) == 0 && (refKind(x.Type()) || isTuple(x.Type())) {
								mark(x)
							}
							continue
						}
						callee := cm.StaticCallee()
						if callee == nil {
							continue
						}
						anyArg := false
						for _, a := range cm.Args {
							if tainted[a] {
								anyArg = true
							}
						}
						if !anyArg {
							continue
						}
						if len(callee.Blocks) > 0 && w.InRepoFn(callee) {
							addFn(callee)
							for k, a := range cm.Args {
								if tainted[a] && k < len(callee.Params) {
									mark(callee.Params[k])
								}
							}
							for _, r := range returnsOf(callee) {
								for k, rv := range r.Results {
									if !tainted[rv] {
										continue
									}
									if len(r.Results) == 1 {
										mark(x)
									} else if ex := extractOf(x, k); ex != nil {
										mark(ex)
									}
								}
							}
							continue
						}
						// a method of the shared object defined outside the repository (generated getters): a result of
						// reference kind may be a part of it
						if callee.Signature.Recv() != nil && len(cm.Args) == 1 && tainted[cm.Args[0]] && refKind(x.Type()) {
							mark(x)
						}
						// library functions that return (a view of) their argument
						switch fnName(callee) {
						case "slices.Compact", "slices.CompactFunc", "slices.Delete", "slices.DeleteFunc", "slices.Clip", "slices.Grow", "sort.StringSlice", "bytes.TrimSpace", "bytes.Trim", "bytes.TrimLeft", "bytes.TrimRight":
							if tainted[cm.Args[0]] {
								mark(x)
							}
						}
					}
				}
			}
		}
	}
	var out []aliasMutation
	for _, f := range order {
		for _, b := range f.Blocks {
			for _, ins := range b.Instrs {
				switch x := ins.(type) {
				case *ssa.Store:
					switch a := x.Addr.(type) {
					case *ssa.IndexAddr:
						if tainted[a.X] {
							out = append(out, aliasMutation{ins, f, "an element is overwritten"})
						}
					case *ssa.FieldAddr:
						if tainted[a.X] {
							out = append(out, aliasMutation{ins, f, "a field is overwritten"})
						}
					}
				case *ssa.MapUpdate:
					if tainted[x.Map] {
						out = append(out, aliasMutation{ins, f, "a map entry is written"})
					}
				case ssa.CallInstruction:
					cm := x.Common()
					if cm.IsInvoke() {
						continue
					}
					name := calleeName(x)
					if k, ok := inPlaceMutators[name]; ok && k < len(cm.Args) && tainted[cm.Args[k]] {
						out = append(out, aliasMutation{ins, f, name + " rearranges it in place"})
					}
					if name == "builtin:append" && len(cm.Args) > 0 && short[cm.Args[0]] {
						out = append(out, aliasMutation{ins, f, "append onto a shortened view overwrites the elements behind it"})
					}
				}
			}
		}
	}
	return out
}

func isTuple(t types.Type) bool {
	_, ok := t.(*types.Tuple)
	return ok
}

// InRepoFn reports whether fn (or the function it is nested in) is declared in a package of the repository.
func (w *World) InRepoFn(fn *ssa.Function) bool {
	for fn.Parent() != nil {
		fn = fn.Parent()
	}
	if o := fn.Origin(); o != nil {
		fn = o
	}
	if fn.Pkg == nil {
		return false
	}
	p := fn.Pkg.Pkg.Path()
	return p == RepoMod || len(p) > len(RepoMod) && p[:len(RepoMod)+1] == RepoMod+"/"
}
