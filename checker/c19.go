package main

import (
	"go/constant"
	"go/token"
	"go/types"
	"strings"

	"golang.org/x/tools/go/ssa"
)

func init() {
	register(&property{
		ID: "C19",
		Meta: propMeta{
			Level:       "Decides that the certificate-type function, read as a decision table extracted from its CFG, equals the statement's table for EVERY valuation of its inputs abstracted to {certificate nil, KeyID decodes, nonce, firefighter, hardware key, touch policy in {0,1,2,3,other}, options map nil, touchless-sudo-hosts option empty/non-empty} and depends on nothing else; that every type it can return has a distinct label, the label is name + \"SSH-\" + the decoded transaction id and the unknown type is an error; and that the principal function maps unknown -> nil, touch-sudo -> each + \":touch\", touchless and touchless-sudo -> each + \":notouch\", every other type -> the input slice. It relies on keyid.Unmarshal (C05) for what 'decodes' means.",
			Technique:   "static analysis: decision-table extraction from the CFG by finite atom valuation (predicate abstraction, no solver) + constant-table comparison",
			Explanation: "GetType and GetPrincipals are loop-free; they are interpreted over named atoms with finite domains, forking whenever a branch needs an undecided atom; the resulting decision tree is compared with the specification for all valuations (exhaustive).",
			Assumptions: []string{"keyid.Unmarshal's meaning of a decodable KeyID is C05's", "a lookup in a nil map yields the empty string (Go semantics, modelled)"},
			Trusted:     []string{"go/packages", "go/types", "go/ssa"},
			RuleDoc: map[string]string{
				"R9.state":      "no memory of earlier calls: on the call tree only frozen package-level variables are touched (known exceptions listed with reasons), and no package-level object is handed out",
				"R1.gettype":    "complete truth table of GetType vs the statement's cascade; atoms used are only the stated ones",
				"R2.labels":     "label table exhaustive and distinct; label composition",
				"R3.principals": "truth table of GetPrincipals over all type constants; suffix helpers append the right constant to every element",
				"R0.decodes":    "the type is 'unknown exactly when the KeyID does not decode': the rules of C05 that fix what decodes (truth table of the version checker, gates of keyid.Unmarshal / Marshal) are imported",
			},
		},
		Run: runC19,
	})
}

const certPkg = "sshutils/cert"

func runC19(c *Ctx) {
	stateRule(c, "R9.state", []*ssa.Function{c.w.Func(certPkg, "GetType"), c.w.Func(certPkg, "Label"), c.w.Func(certPkg, "GetPrincipals")}, knownState)
	w := c.w
	c.WithRules(map[string]string{"R2.truth": "R0.decodes", "R3.gate": "R0.decodes"}, func() { keyidDecodeRules(c) })
	p := w.ByPath[RepoMod+"/"+certPkg]
	gt := w.Func(certPkg, "GetType")
	if p == nil || gt == nil {
		c.Unresolved("R1.gettype", "cert.GetType")
		return
	}
	tablesC19(c)
	c.Saw(gt)
	T := map[string]int64{}
	for n, v := range constDecls(p, "Type") {
		if i, ok := constant.Int64Val(v); ok {
			T[n] = i
		}
	}
	for _, n := range []string{"UnknownCertType", "TouchSudoCert", "TouchlessCert", "TouchlessSudoCert", "FirefighterCert", "NonceCert", "TouchlessInAgentCert", "TouchlessSudoInAgentCert"} {
		if _, ok := T[n]; !ok {
			c.Unresolved("R1.gettype", "cert type constant "+n)
			return
		}
	}
	optKey := "touchless-sudo-hosts"
	if v, ok := p.Types.Scope().Lookup("CriticalOptionTouchlessSudoHosts").(interface{ Val() constant.Value }); ok && v.Val().Kind() == constant.String {
		optKey = constant.StringVal(v.Val())
		c.Check(optKey == "touchless-sudo-hosts", "R1.gettype", "GetType|critical option name", "-", "touchless-sudo-hosts", "the critical option consulted is "+optKey)
	}
	optAtom := `optsmap["` + optKey + `"]`
	spec := &dtSpec{
		Domain: map[string][]absVal{
			"touch":  {{K: avInt, I: 0}, {K: avInt, I: 1}, {K: avInt, I: 2}, {K: avInt, I: 3}, {K: avInt, I: 9}},
			"kiderr": {{K: avNil}, {K: avNonNil}},
			"opts":   {{K: avNil}, {K: avObject, Obj: "optsmap"}},
			optAtom:  {{K: avStr, S: ""}, {K: avStr, S: "host.example"}},
		},
		FieldAtom: func(obj, field string) string {
			switch {
			case obj == "k":
				return map[string]string{"IsNonce": "nonce", "IsFirefighter": "ff", "IsHWKey": "hw", "TouchPolicy": "touch"}[field]
			case strings.HasPrefix(obj, "cert") && field == "CriticalOptions":
				return "opts"
			}
			return ""
		},
		OnCall: func(e *dtRun, call ssa.CallInstruction, args []absVal) (absVal, bool) {
			if strings.HasSuffix(calleeName(call), "keyid.Unmarshal") {
				// argument must be the certificate's own KeyId
				ev := e.resolve(absVal{K: avAtom, Name: "kiderr"})
				if e.need != "" {
					return absVal{}, true
				}
				if ev.K == avNil {
					return absVal{K: avTuple, Tuple: []absVal{{K: avObject, Obj: "k"}, {K: avNil}}}, true
				}
				return absVal{K: avTuple, Tuple: []absVal{{K: avNil}, {K: avNonNil}}}, true
			}
			return absVal{}, false
		},
	}
	// keyid.Unmarshal's argument is cert.KeyId
	for _, call := range callsIn(gt) {
		if strings.HasSuffix(calleeName(call), "keyid.Unmarshal") {
			c.Check(w.Expr(call.Common().Args[0]) == "p0.KeyId", "R1.gettype", "GetType|decodes the certificate's own KeyID", w.Pos(call.Pos()), "keyid.Unmarshal(cert.KeyId)", "GetType decodes something other than cert.KeyId: "+w.Short(call.Common().Args[0]))
		}
	}
	specFn := func(certNil bool, v map[string]absVal) int64 {
		if certNil || v["kiderr"].K == avNonNil {
			return T["UnknownCertType"]
		}
		host := v["opts"].K != avNil && v[optAtom].S != ""
		switch {
		case v["nonce"].B:
			return T["NonceCert"]
		case v["ff"].B && v["hw"].B:
			return T["FirefighterCert"]
		case v["ff"].B:
			if host {
				return T["TouchlessSudoInAgentCert"]
			}
			return T["TouchlessInAgentCert"]
		case v["touch"].I == 2 || v["touch"].I == 3:
			return T["TouchSudoCert"]
		case v["touch"].I == 1:
			if host {
				return T["TouchlessSudoCert"]
			}
			return T["TouchlessCert"]
		}
		return T["UnknownCertType"]
	}
	allowed := map[string]bool{"kiderr": true, "nonce": true, "ff": true, "hw": true, "touch": true, "opts": true, optAtom: true}
	rows := 0
	for _, certNil := range []bool{true, false} {
		arg := absVal{K: avObject, Obj: "cert"}
		if certNil {
			arg = absVal{K: avNil}
		}
		leaves, und := w.DecisionTable(gt, []absVal{arg}, spec)
		for _, u := range und {
			c.Und("R1.gettype", "GetType|interpretable", w.FnPos(gt), u)
		}
		named, anon := dtAtomsUsed(leaves)
		for _, a := range anon {
			c.Und("R1.gettype", "GetType|condition "+a, w.FnPos(gt), "GetType branches on something outside the stated attributes: "+a)
		}
		for _, a := range named {
			c.Check(allowed[a], "R1.gettype", "GetType|depends on "+a, w.FnPos(gt), "a stated attribute", "GetType depends on "+a+", which the statement does not allow")
		}
		atoms := []string{"kiderr", "nonce", "ff", "hw", "touch", "opts", optAtom}
		if certNil {
			atoms = nil
		}
		for _, val := range dtValuations(atoms, spec.Domain) {
			rows++
			want := specFn(certNil, val)
			key := "GetType|row cert=nil"
			if !certNil {
				key = "GetType|row " + valString(val)
			}
			ms := dtMatch(leaves, val)
			ok := len(ms) > 0
			got := "no path"
			for _, l := range ms {
				if len(l.Result) != 1 || l.Result[0].K != avInt || l.Result[0].I != want {
					ok = false
				}
				if len(l.Result) == 1 {
					got = l.Result[0].String()
				}
			}
			c.Check(ok, "R1.gettype", key, w.FnPos(gt), "type "+typeNameOf(T, want), "GetType yields "+typeNameOfS(T, got)+" where the statement's table says "+typeNameOf(T, want))
		}
	}
	c.Floor("R1.gettype", rows, 300, "truth-table rows of GetType")

	// ---- R3 ----
	gp := w.Func(certPkg, "GetPrincipals")
	if gp == nil {
		c.Unresolved("R3.principals", "cert.GetPrincipals")
		return
	}
	c.Saw(gp)
	// the caller's list is only read: a result built in the list's own storage (out := principals[:0]) rewrites it, and the
	// next derivation from the same list gets labels stacked on labels
	if len(gp.Params) > 0 {
		in := gp.Params[0]
		muts := w.aliasMutations(w.Tree(gp), func(v ssa.Value) bool { return v == ssa.Value(in) })
		for _, mu := range muts {
			c.Bad("R3.principals", shortFn(mu.fn)+"|in-place write to the caller's principal list", w.Pos(mu.at.Pos()), "the labelled list is written into storage shared with the caller's list: "+mu.what)
		}
		if len(muts) == 0 {
			c.Ok("R3.principals", "GetPrincipals|caller's list only read", w.FnPos(gp), "alias flow from the parameter: no element store, no in-place library call, no append onto a shortened view")
		}
	}
	// helpers: repository callees of GetPrincipals; classify by the constant they append
	helperTag := map[string]string{}
	for _, call := range callsIn(gp) {
		callee := call.Common().StaticCallee()
		if callee == nil || !w.InRepo(callee) {
			continue
		}
		c.Saw(callee)
		suffix, sfxParam, ok := suffixHelper(w, callee)
		if ok && sfxParam >= 0 {
			suffix = "\x00param" + itoa(sfxParam)
		}
		key := shortFn(callee) + "|appends a constant suffix to every element"
		if !ok {
			// another helper of GetPrincipals (one that picks the suffix for the type): read in place by the decision table
			continue
		}
		c.Ok("R3.principals", key, w.FnPos(callee), "suffix "+suffix)
		helperTag[shortFn(callee)] = suffix
	}
	if len(helperTag) == 0 {
		c.Und("R3.principals", "GetPrincipals|a helper appends a constant suffix to every element", w.FnPos(gp), "no helper of GetPrincipals is of the form: for each p in input, append(out, p + CONST)")
	}
	noInline := map[string]bool{}
	for h := range helperTag {
		noInline[h] = true
	}
	var dom []absVal
	for _, v := range T {
		dom = append(dom, absVal{K: avInt, I: v})
	}
	dom = append(dom, absVal{K: avInt, I: 99}, absVal{K: avInt, I: 6})
	pspec := &dtSpec{
		Domain:   map[string][]absVal{"type": dom},
		NoInline: noInline,
		OnCall: func(e *dtRun, call ssa.CallInstruction, args []absVal) (absVal, bool) {
			if callee := call.Common().StaticCallee(); callee != nil {
				if sfx, ok := helperTag[shortFn(callee)]; ok {
					if strings.HasPrefix(sfx, "\x00param") {
						// the suffix is the helper's own parameter: the constant passed at this call
						pi := atoi(strings.TrimPrefix(sfx, "\x00param"))
						if len(args) == 2 && pi < len(args) && args[pi].K == avStr && args[1-pi].K == avObject && args[1-pi].Obj == "prins" {
							return absVal{K: avNonNil, Tag: "suffix" + args[pi].S}, true
						}
						return absVal{K: avUnknown, Tag: "helper on something else"}, true
					}
					if len(args) == 1 && args[0].K == avObject && args[0].Obj == "prins" {
						return absVal{K: avNonNil, Tag: "suffix" + sfx}, true
					}
					return absVal{K: avUnknown, Tag: "helper on something else"}, true
				}
			}
			return absVal{}, false
		},
	}
	leaves, und := w.DecisionTable(gp, []absVal{{K: avObject, Obj: "prins"}, {K: avAtom, Name: "type"}}, pspec)
	for _, u := range und {
		c.Und("R3.principals", "GetPrincipals|interpretable", w.FnPos(gp), u)
	}
	n := 0
	for _, val := range dtValuations([]string{"type"}, pspec.Domain) {
		n++
		t := val["type"].I
		want := "unchanged"
		switch t {
		case T["UnknownCertType"]:
			want = "nil"
		case T["TouchSudoCert"]:
			want = "suffix:touch"
		case T["TouchlessCert"], T["TouchlessSudoCert"]:
			want = "suffix:notouch"
		}
		ms := dtMatch(leaves, val)
		ok := len(ms) > 0
		got := "no path"
		for _, l := range ms {
			g := "?"
			if len(l.Result) == 1 {
				switch {
				case l.Result[0].K == avNil:
					g = "nil"
				case l.Result[0].K == avObject && l.Result[0].Obj == "prins":
					g = "unchanged"
				case l.Result[0].K == avNonNil:
					g = l.Result[0].Tag
				}
			}
			got = g
			if g != want {
				ok = false
			}
		}
		c.Check(ok, "R3.principals", "GetPrincipals|type "+typeNameOf(T, t), w.FnPos(gp), want, "principals for type "+typeNameOf(T, t)+" are "+got+", the statement requires "+want)
	}
	c.Floor("R3.principals", n, 9, "type values")
}

func typeNameOf(T map[string]int64, v int64) string {
	for n, x := range T {
		if x == v {
			return n
		}
	}
	return "Type(" + itoa(int(v)) + ")"
}

func typeNameOfS(T map[string]int64, s string) string {
	if v, ok := intVal(strVal(s)); ok {
		return typeNameOf(T, v)
	}
	return s
}

type strVal string

func (s strVal) String() string { return string(s) }

// suffixHelper recognises `for _, p := range in { out = append(out, p+CONST) }; return out` and returns CONST.
// The suffix may also be the helper's second (string) parameter: then sfxParam is its index and the caller supplies
// the constant.
func suffixHelper(w *World, fn *ssa.Function) (suffixConst string, sfxParam int, okRes bool) {
	s, p, ok := suffixHelper1(w, fn)
	return s, p, ok
}

func suffixHelper1(w *World, fn *ssa.Function) (string, int, bool) {
	sfxParam := -1
	inParam := 0
	switch len(fn.Params) {
	case 1:
	case 2:
		// one []string and one string parameter
		for i, p := range fn.Params {
			if b, ok := p.Type().Underlying().(*types.Basic); ok && b.Kind() == types.String {
				sfxParam = i
			} else {
				inParam = i
			}
		}
		if sfxParam < 0 {
			return "", -1, false
		}
	default:
		return "", -1, false
	}
	var suffix string
	nApp := 0
	for _, call := range callsIn(fn) {
		b, ok := call.Common().Value.(*ssa.Builtin)
		if !ok || b.Name() != "append" {
			continue
		}
		nApp++
		// appended element: slice of a 1-element array holding p+CONST
		sl, ok := call.Common().Args[1].(*ssa.Slice)
		if !ok {
			return "", -1, false
		}
		a, ok := sl.X.(*ssa.Alloc)
		if !ok {
			return "", -1, false
		}
		var elem ssa.Value
		for _, vs := range storesInto(a) {
			elem = vs
		}
		bin, ok := elem.(*ssa.BinOp)
		if !ok || bin.Op != token.ADD {
			return "", -1, false
		}
		k, ok := strConst(bin.Y)
		if !ok {
			if sfxParam < 0 || bin.Y != ssa.Value(fn.Params[sfxParam]) {
				return "", -1, false
			}
		}
		ld, ok := bin.X.(*ssa.UnOp)
		if !ok {
			return "", -1, false
		}
		ia, ok := ld.X.(*ssa.IndexAddr)
		if !ok || ia.X != ssa.Value(fn.Params[inParam]) || !isForwardRangeIndex(ia.Index) {
			return "", -1, false
		}
		suffix = k
	}
	if nApp != 1 {
		return "", -1, false
	}
	// the loop condition is the only branch: every element is appended
	// (a guard that hands an empty input straight back as nil / empty is the loop's own result for that input)
	nIf := 0
	emptyRet := map[*ssa.BasicBlock]bool{}
	for _, b := range fn.Blocks {
		for _, ins := range b.Instrs {
			iff, ok := ins.(*ssa.If)
			if !ok {
				continue
			}
			if bin, isBin := iff.Cond.(*ssa.BinOp); isBin && bin.Op == token.EQL {
				if la := lenArg(bin.X); la != nil && la == ssa.Value(fn.Params[inParam]) {
					if k, isK := intConst(bin.Y); isK && k == 0 {
						if t := b.Succs[0]; len(t.Instrs) == 1 {
							if r, isRet := t.Instrs[0].(*ssa.Return); isRet && len(r.Results) == 1 && (isNilConst(r.Results[0]) || emptySlice(r.Results[0])) {
								emptyRet[t] = true
								continue
							}
						}
					}
				}
			}
			nIf++
		}
	}
	if nIf != 1 {
		return "", -1, false
	}
	// returns the accumulated slice
	for _, r := range liveReturns(fn) {
		if emptyRet[r.Block()] {
			continue
		}
		ex := w.Expr(r.Results[0])
		if !strings.Contains(ex, "builtin:append") {
			return "", -1, false
		}
	}
	return suffix, sfxParam, true
}

// storesInto lists values stored into elements of a local array.
func storesInto(a *ssa.Alloc) []ssa.Value {
	var out []ssa.Value
	if refs := a.Referrers(); refs != nil {
		for _, r := range *refs {
			if ia, ok := r.(*ssa.IndexAddr); ok {
				if rr := ia.Referrers(); rr != nil {
					for _, u := range *rr {
						if st, ok := u.(*ssa.Store); ok && st.Addr == ssa.Value(ia) {
							out = append(out, st.Val)
						}
					}
				}
			}
		}
	}
	return out
}
