#!/bin/bash
# Entry point for every registered check. Static analysis only: builds the checker (not the
# repository) and analyses /repo's current working tree; no repository code is executed.
set -u
VERIF="$(cd "$(dirname "${BASH_SOURCE[0]}")" && pwd)"
export GOFLAGS=-mod=mod GOPROXY=off GOSUMDB=off GOTOOLCHAIN=local
unset GOWORK
REPO="${VERIF_REPO:-/repo}"
BIN="$VERIF/bin/yverif"

build() {
  mkdir -p "$VERIF/bin"
  # rebuild when the binary is missing or any checker source is newer
  if [ ! -x "$BIN" ] || [ -n "$(find "$VERIF/checker" -name '*.go' -newer "$BIN" -print -quit)" ] || [ "$VERIF/checker/go.mod" -nt "$BIN" ]; then
    (cd "$VERIF/checker" && go build -o "$BIN" .) || { echo "ERROR cannot build checker"; exit 2; }
  fi
}

cmd="${1:-}"; shift || true
case "$cmd" in
  setup) build ;;
  check)
    build
    id="${1:-}"; tier="${2:-quick}"
    if [ "${VERIF_TIER:-}" = "thorough" ] || [ "${VERIF_TIER:-}" = "quick" ]; then tier="$VERIF_TIER"; fi
    if [ "$tier" = "thorough" ] && [ -z "${VERIF_NO_CONTROLS:-}" ]; then
      # checker self-test for this property: stored breaking / neutral edits on scratch copies (outside /repo and /verif)
      mkdir -p "$VERIF/evidence"
      python3 "$VERIF/tools/selftest.py" --only "$id-" --jobs 8 --json "$VERIF/evidence/selftest_$id.json" >/dev/null 2>&1 || true
      python3 "$VERIF/tools/selftest.py" --kind neutral --props "$id" --jobs 8 --json "$VERIF/evidence/selftest_${id}_neutral.json" >/dev/null 2>&1 || true
      python3 - "$VERIF/evidence/selftest_$id.json" "$VERIF/evidence/selftest_${id}_neutral.json" <<'PY' || true
import json,sys
a=[]
for p in sys.argv[1:]:
    try: a+=json.load(open(p))
    except Exception: pass
json.dump(a,open(sys.argv[1],'w'),indent=1)
PY
      rm -f "$VERIF/evidence/selftest_${id}_neutral.json"
    fi
    VERIF_DIR="$VERIF" exec "$BIN" check "$@" -repo "$REPO" -verif "$VERIF" ;;
  explain)
    build
    exec "$BIN" explain "$@" -repo "$REPO" -verif "$VERIF" ;;
  manifest)
    build
    "$BIN" manifest > "$VERIF/MANIFEST.json.tmp" && mv "$VERIF/MANIFEST.json.tmp" "$VERIF/MANIFEST.json" ;;
  all)
    build
    tier="${1:-quick}"; rc=0
    for id in $("$BIN" list); do "$BIN" check "$id" "$tier" -repo "$REPO" -verif "$VERIF" || rc=1; done
    exit $rc ;;
  dump) build; exec "$BIN" dump -repo "$REPO" "$@" ;;
  *) echo "usage: run.sh setup|check <ID> [quick|thorough]|explain --replay <path>|manifest|all [tier]|dump -fn <name>"; exit 2 ;;
esac
